#!/bin/bash
# allchecks.sh <tier> <seed>... : run every check on the tree as it is; one line per check
tier=$1; shift
cd /verif
for seed in "$@"; do
  for id in C01 C02 C03 C04 C05 C06 C07 C08 C09 C10 C11 C12 C13 C14 C15 C16 C17 C18 C19 C20; do
    t0=$(date +%s)
    out=$(VERIF_SEED=$seed ./check $id $tier 2>&1); rc=$?
    echo "seed=$seed $id exit=$rc $(( $(date +%s) - t0 ))s $(echo "$out" | grep -c '^VIOLATION') violations $(echo "$out" | grep -c '^KNOWN-FINDING') known $(echo "$out" | grep -m1 -E 'what:|CHECK-ERROR' | cut -c1-200)"
  done
done
