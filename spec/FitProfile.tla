----------------------------- MODULE FitProfile -----------------------------
(***************************************************************************)
(* The profile the library is compiled with, and what each file type       *)
(* holds.  Both are regenerated from the compiled program at every run:    *)
(*   profile.json - the lookup tables, through the verif export hook       *)
(*   schema.json  - the container struct types, by reflection (NOT from    *)
(*                  the add() switches that C03 verifies)                  *)
(***************************************************************************)
EXTENDS FitBase, Json, TLC

ProfileJ == JsonDeserialize("profile.json")
SchemaJ  == JsonDeserialize("schema.json")

KnownMsgs == { ProfileJ.msgs[i].m : i \in DOMAIN ProfileJ.msgs }

FieldTab ==
    [ m \in KnownMsgs |->
        LET r  == ProfileJ.msgs[CHOOSE i \in DOMAIN ProfileJ.msgs : ProfileJ.msgs[i].m = m]
            fs == r.fields
        IN  [ n \in { fs[i].n : i \in DOMAIN fs } |-> fs[CHOOSE i \in DOMAIN fs : fs[i].n = n] ] ]

Known(m) == m \in KnownMsgs
HasField(m, n) == m \in KnownMsgs /\ n \in DOMAIN FieldTab[m]
PF(m, n) == FieldTab[m][n]          \* [n, s, b, a, k, l, t]

NoSlot == [name |-> "", m |-> -1, list |-> 0]

FileTypes == { SchemaJ.types[i].t : i \in DOMAIN SchemaJ.types }
TypeRec == [ t \in FileTypes |-> SchemaJ.types[CHOOSE i \in DOMAIN SchemaJ.types : SchemaJ.types[i].t = t] ]
Hosted == [ t \in FileTypes |-> { TypeRec[t].slots[i].m : i \in DOMAIN TypeRec[t].slots } ]
RouteTab == [ t \in FileTypes |->
               [ m \in Hosted[t] |-> TypeRec[t].slots[CHOOSE i \in DOMAIN TypeRec[t].slots : TypeRec[t].slots[i].m = m] ] ]
SlotNames(t) == { TypeRec[t].slots[i].name : i \in DOMAIN TypeRec[t].slots }

\* the slot of file type t that holds message m (NoSlot if not held)
Route(t, m) == IF t \in FileTypes /\ m \in Hosted[t] THEN RouteTab[t][m] ELSE NoSlot

\* file type validity (C03): the 17 held types are valid; 0xFF is invalid,
\* 0xF7..0xFE manufacturer specific, everything else unknown - all rejected.
ValidFileType(t) == t \in FileTypes

\* messages kept on the File itself, bypassing the container
MFileId == 0
MFileCreator == 49
MTimestampCorrelation == 162
MFieldDescription == 206
MDeveloperDataId == 207
CommonMsgs == { MFileId, MFileCreator, MTimestampCorrelation, MFieldDescription, MDeveloperDataId }
=============================================================================
