--------------------------- MODULE Trace_Stringer ---------------------------
(***************************************************************************)
(* C20: String() of the generated FIT types.                               *)
(*   Str(T, v) = the name of a constant of T with value v, without the     *)
(*               type prefix (any one of them when several share v);       *)
(*               "T(v)" when no constant has that value.                   *)
(* consts.json: T -> <<[name, v]>> extracted from the checked-in types.go  *)
(* with go/types (not from types_string.go).  Values are decimal strings   *)
(* (they exceed TLC's integer range).  trace.ndjson: observed calls        *)
(* [kind |-> "str", t, v, s] and facts [kind |-> "regen", equal].          *)
(***************************************************************************)
EXTENDS Sequences, TLC, Json, Naturals

Consts == JsonDeserialize("consts.json")
Events == ndJsonDeserialize("trace.ndjson")

ASSUME TLCSet(1, 0) /\ TLCSet(2, << >>)
Note(rec) == TLCSet(2, Append(TLCGet(2), rec))
Must(cond, rec) == IF cond THEN TRUE ELSE Note(rec)

\* man = 1: a hand-written type (types_man.go), whose names may keep the type prefix
StrOK(t, v, s, man) ==
    LET cs == { i \in DOMAIN Consts[t] : Consts[t][i].v = v } IN
    IF cs # {} THEN \E i \in cs : t \o s = Consts[t][i].name \/ (man = 1 /\ s = Consts[t][i].name)
    ELSE s = t \o "(" \o v \o ")"

VARIABLE k
Init == k = 1
Next == /\ k <= Len(Events)
        /\ LET e == Events[k] IN
           CASE e.kind = "str" -> Must(StrOK(e.t, e.v, e.s, e.man), [what |-> "String()", t |-> e.t, v |-> e.v, observed |-> e.s])
             [] e.kind = "stable" -> Must(e.equal = 1, [what |-> "String() is not a function of the value: the printed form changes after the library has been used", detail |-> e.detail])
             [] e.kind = "regen" -> Must(e.equal = 1, [what |-> "types_string.go is not what the repository's stringer generates from types.go", detail |-> e.detail])
        /\ TLCSet(1, TLCGet(1) + 1)
        /\ k' = k + 1
TSpec == Init /\ [][Next]_k

Post == /\ ndJsonSerialize("mismatch.ndjson", TLCGet(2))
        /\ PrintT(<< "TRACES", TLCGet(1), Len(Events), "MISMATCHES", Len(TLCGet(2)) >>)
        /\ TLCGet(1) = Len(Events)
        /\ TLCGet(2) = << >>
=============================================================================
