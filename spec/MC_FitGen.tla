----------------------------- MODULE MC_FitGen ------------------------------
(* Gen satisfies Relation for every selection of a toy message (all 2^6    *)
(* subsets of 6 rows); a generator that used the row index instead of the  *)
(* enabled rank is shown not to.                                           *)
EXTENDS FitGen, TLC
Toy == << [n |-> 253, name |-> "timestamp", b |-> 6, a |-> 0, k |-> 1],
          [n |-> 0, name |-> "position_lat", b |-> 5, a |-> 0, k |-> 3],
          [n |-> 3, name |-> "heart_rate", b |-> 2, a |-> 0, k |-> 0],
          [n |-> 8, name |-> "compressed_speed_distance", b |-> 13, a |-> 1, k |-> 0],
          [n |-> 5, name |-> "distance", b |-> 6, a |-> 0, k |-> 0],
          [n |-> 6, name |-> "speed", b |-> 4, a |-> 0, k |-> 0] >>
With(sel) == [i \in DOMAIN Toy |-> Toy[i] @@ [on |-> i \in sel]]
ASSUME \A sel \in SUBSET (DOMAIN Toy) : Relation(With(sel), Gen(With(sel)))
\* non-vacuity: indexing by row position breaks the relation for some selection
RECURSIVE BadFrom(_, _, _)
BadFrom(rows, i, acc) ==
    IF i > Len(rows) THEN acc
    ELSE IF ~rows[i].on THEN BadFrom(rows, i + 1, acc)
    ELSE BadFrom(rows, i + 1, [struct |-> Append(acc.struct, rows[i].name),
                               entries |-> Append(acc.entries, [n |-> rows[i].n, s |-> i - 1, b |-> rows[i].b, a |-> rows[i].a, k |-> rows[i].k])])
ASSUME \E sel \in SUBSET (DOMAIN Toy) : ~Relation(With(sel), BadFrom(With(sel), 1, [struct |-> << >>, entries |-> << >>]))
VARIABLE d
Init == d = 0
Next == UNCHANGED d
=============================================================================
