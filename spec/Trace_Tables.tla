---------------------------- MODULE Trace_Tables ----------------------------
(***************************************************************************)
(* C15: the compiled-in profile tables, the message structs and the        *)
(* all-invalid constructors agree everywhere (ProfileWellFormed), and the  *)
(* field numbers map to the struct fields the SDK workbook assigns.        *)
(*                                                                         *)
(* tables.json is produced at every run from the compiled program (verif   *)
(* export hook + reflection):                                              *)
(*   msgs[i]: m, name, hasctor, hastype, nf (NumField), isknown,           *)
(*            fields[j]: n, s, b, a, k, l, gokind, gobits, goslice,        *)
(*                       fname, ctorpresent                                *)
(*            unlisted: names of struct fields no table entry points at    *)
(*   rows: message numbers that have a row in the lookup table             *)
(*   slots: [container, slot, m] for every member of every file container  *)
(*   sdk: [m, n, name, b, a] rows read from the newest bundled workbook    *)
(*        by the harness itself (not through fitgen's parser)              *)
(* One step per message; disagreements go to register 2.                   *)
(***************************************************************************)
EXTENDS FitBase, TLC, Json, FiniteSets

Tab == JsonDeserialize("tables.json")

ASSUME TLCSet(1, 0) /\ TLCSet(2, << >>)
Note(rec) == TLCSet(2, Append(TLCGet(2), rec))
Must(cond, rec) == IF cond THEN TRUE ELSE Note(rec)

Known == { Tab.msgs[i].m : i \in { j \in DOMAIN Tab.msgs : Tab.msgs[j].isknown = 1 } }

\* Go type the generator must give a field of (base b, array a, kind k)
GoOf(b, a, k) ==
    IF k \in {1, 2} THEN [kind |-> "time", bits |-> 0, slice |-> 0]
    ELSE IF k = 3 THEN [kind |-> "lat", bits |-> 0, slice |-> 0]
    ELSE IF k = 4 THEN [kind |-> "lng", bits |-> 0, slice |-> 0]
    ELSE [kind |-> IF b = 7 THEN "string" ELSE IF FloatB(b) THEN "float" ELSE IF SignedB(b) THEN "int" ELSE "uint",
          bits |-> IF b = 7 THEN 0 ELSE 8 * SizeOf(b), slice |-> a]

CheckMsg(r) ==
    LET w == [m |-> r.m, name |-> r.name]
        fs == r.fields
        sidx == { fs[j].s : j \in DOMAIN fs }
    IN
    /\ Must(r.hasctor = 1 /\ r.hastype = 1, w @@ [what |-> "known message without constructor or type"])
    /\ Must(r.ctortype = r.name, w @@ [what |-> "the constructor registered for the message builds another message type", observed |-> r.ctortype])
    /\ Must(Cardinality(sidx) = Len(fs), w @@ [what |-> "two field numbers share a struct field"])
    /\ Must(sidx = 0..(r.nf - 1), w @@ [what |-> "struct indices not dense in 0..NumField-1", indices |-> sidx, numfield |-> r.nf])
    /\ \A j \in DOMAIN fs :
         LET f == fs[j]  g == GoOf(f.b, f.a, f.k)  wf == w @@ [n |-> f.n, field |-> f.fname] IN
         /\ Must(f.b \in 0..16 /\ f.k \in 0..4, wf @@ [what |-> "type bits out of range"])
         /\ Must(f.gokind = g.kind /\ f.gobits = g.bits /\ f.goslice = g.slice,
                 wf @@ [what |-> "Go type of the struct field does not match the table entry", expected |-> g, observed |-> [kind |-> f.gokind, bits |-> f.gobits, slice |-> f.goslice]])
         /\ Must(f.k \notin {1, 2} \/ f.b = 6, wf @@ [what |-> "time field with a base type other than uint32"])
         /\ Must(f.k \notin {3, 4} \/ f.b = 5, wf @@ [what |-> "coordinate field with a base type other than sint32"])
         /\ Must(f.ctorpresent = 0, wf @@ [what |-> "constructor does not initialise the field to its invalid value"])
         /\ Must(f.l >= 1 /\ (IF f.b = 7 THEN f.l ELSE SizeOf(f.b) * (IF f.a = 1 THEN f.l ELSE 1)) <= 255, wf @@ [what |-> "encoded size does not fit in one byte", length |-> f.l])
         /\ Must(f.n \in 0..254, wf @@ [what |-> "field number 255 is reserved"])
         /\ Must(f.n = f.idx, wf @@ [what |-> "the entry found under one field number (decoder) names another field number (encoder)", index |-> f.idx])

CheckSdk(row) ==
    \* row: [m, n, name, b, a]; compared wherever the compiled profile has the field
    LET ms == { i \in DOMAIN Tab.msgs : Tab.msgs[i].m = row.m } IN
    IF ms = {} THEN TRUE
    ELSE LET r == Tab.msgs[CHOOSE i \in ms : TRUE]
             js == { j \in DOMAIN r.fields : r.fields[j].n = row.n }
         IN IF js = {} THEN TRUE
            ELSE LET f == r.fields[CHOOSE j \in js : TRUE]
                     w == [m |-> row.m, n |-> row.n, sdkname |-> row.name, field |-> f.fname]
                 IN /\ Must(f.norm = row.name, w @@ [what |-> "field number maps to another struct field than the SDK profile assigns"])
                    /\ Must(f.b = row.b /\ f.a = row.a, w @@ [what |-> "base type / array flag differ from the SDK profile", expected |-> << row.b, row.a >>, observed |-> << f.b, f.a >>])
                    /\ Must((IF f.k \in {1, 2} THEN f.k ELSE 0) = row.k, w @@ [what |-> "time kind (date_time / local_date_time) differs from the SDK profile", expected |-> row.k, observed |-> f.k])

VARIABLE i
Init == i = 1
Next == \/ /\ i <= Len(Tab.msgs)
           /\ IF Tab.msgs[i].isknown = 1 THEN CheckMsg(Tab.msgs[i])
              ELSE Must(Tab.msgs[i].fields = << >>, [m |-> Tab.msgs[i].m, what |-> "lookup-table row for a message that is not known"])
           /\ TLCSet(1, TLCGet(1) + 1)
           /\ i' = i + 1
        \/ /\ i = Len(Tab.msgs) + 1
           /\ \A j \in DOMAIN Tab.slots : Must(Tab.slots[j].m \in Known, [what |-> "file container member is not a known message", slot |-> Tab.slots[j]])
           /\ \A j \in DOMAIN Tab.slots : Must(Tab.slots[j].gotype = Tab.slots[j].regtype, [what |-> "the struct type of a file container member resolves to the message number of another struct type", slot |-> Tab.slots[j]])
           /\ \A j \in DOMAIN Tab.sdk : CheckSdk(Tab.sdk[j])
           /\ i' = i + 1
TSpec == Init /\ [][Next]_i

Post == /\ ndJsonSerialize("mismatch.ndjson", TLCGet(2))
        /\ PrintT(<< "TRACES", TLCGet(1), Len(Tab.msgs), "MISMATCHES", Len(TLCGet(2)) >>)
        /\ TLCGet(1) = Len(Tab.msgs)
        /\ TLCGet(2) = << >>
=============================================================================
