----------------------------- MODULE CrcStream -----------------------------
(***************************************************************************)
(* The streaming checksum object (dyncrc16.Hash16): a register fed by      *)
(* successive writes.  Contract: at every moment the register equals the   *)
(* CRC of everything fed since the last Reset, whatever the partition.     *)
(***************************************************************************)
EXTENDS Crc16

VARIABLES reg, fed
svars == << reg, fed >>

SInit == reg = 0 /\ fed = << >>

Write(chunk) == /\ reg' = CrcFold(reg, chunk)
                /\ fed' = fed \o chunk

Reset == reg' = 0 /\ fed' = << >>

\* Sum16 / Sum / Size / BlockSize are observers: they do not change state.
Sum16 == reg
SumBE(prefix) == prefix \o << reg \div 256, reg % 256 >>   \* hash.Hash convention

PartitionInvariant == reg = Crc(fed)
=============================================================================
