----------------------------- MODULE FrameImpl ------------------------------
(***************************************************************************)
(* The decoder's reader (Impl), transcribed from header.go:decodeHeader    *)
(* and reader.go:fill/readByte/readFull/checkCRC/DecodeChained, against    *)
(* an environment that answers every Read(req) with any 1..req bytes that  *)
(* are still available, or with EOF / a fault when none are (optionally    *)
(* the last bytes together with the error).                                *)
(*                                                                         *)
(* A stream is a chain of Files; file k has a header of H[k] bytes, a data *)
(* area that the parser consumes in Units[k] (one entry per readByte /     *)
(* readFull request: the sizes are what matters, not the contents) and 2   *)
(* CRC bytes.  Avail bytes can be read; then EOF (Fault = FALSE) or a      *)
(* non-EOF error (Fault = TRUE).                                           *)
(*                                                                         *)
(* Contract properties (Frame): NeverPastFrame, SuccessConsumesExactly,    *)
(* TruncationIsError, FaultIsError, ChainRule, and termination.            *)
(* Because the state is (position, buffered, fetched) and not the history  *)
(* of chunk sizes, all 2^n chunkings collapse to O(n^2) states.            *)
(***************************************************************************)
EXTENDS Integers, Sequences, FiniteSets, TLC

CONSTANTS FileSets,  \* sequence of chains; a chain is a sequence of [h |-> 12 or 14, units |-> <<sizes>>, mode |-> "decode" | "integrity"]
          BufSize,   \* len(d.bytes.buf) (4096 in the code)
          CopyBuf,   \* buffer of io.CopyN on the CheckIntegrity path (32768 in the standard library)
          DataWithErr, \* TRUE: the environment may return the last bytes together with the error
          PreFixChainRule \* TRUE: DecodeChained as it was before the fix (any failure on the size byte of a later file ends the chain silently)

VARIABLE fset        \* index of the chain being read (fixed during a behaviour; Trace_FrameImpl switches it between traces)
Files == FileSets[fset]
\* "decode": Decode / DecodeChained (parser + chain loop); "integrity": CheckIntegrity(r, false) -
\* header, io.CopyN of exactly the data size into the checksum, the two CRC bytes, no chain
Mode == Files[1].mode

Sum(s) == IF s = << >> THEN 0 ELSE LET RECURSIVE F(_) F(i) == IF i > Len(s) THEN 0 ELSE s[i] + F(i + 1) IN F(1)
DataLen(k) == Sum(Files[k].units)
FrameLen(k) == Files[k].h + DataLen(k) + 2
RECURSIVE StartOf(_)
StartOf(k) == IF k = 1 THEN 0 ELSE StartOf(k - 1) + FrameLen(k - 1)
Total == StartOf(Len(Files)) + FrameLen(Len(Files))

VARIABLES Avail,    \* bytes readable before the end (chosen at Init, then fixed)
          Fault,    \* TRUE: the end is a non-EOF error (chosen at Init, then fixed)
          pc,       \* "size" | "hdr" | "unit" | "copy" | "crc" | "next" | "done"
          k,        \* current file (1-based)
          fetched,  \* bytes handed out by the reader so far
          want,     \* bytes the current ReadFull / unit still needs
          ui,       \* index of the current unit
          n,        \* d.bytes.n: data bytes consumed
          buf,      \* unread bytes in d.bytes.buf (j - i)
          ended,    \* the reader has reported its end (EOF / fault)
          files,    \* number of files completed
          result,   \* "run" | "ok" | "err"
          lastreq   \* size of the last Read request and where it started (for NeverPastFrame)
vars == << fset, Avail, Fault, pc, k, fetched, want, ui, n, buf, ended, files, result, lastreq >>

Limit == DataLen(k)

Init == /\ fset = 1
        /\ Avail \in 0..Total /\ Fault \in BOOLEAN
        /\ pc = "size" /\ k = 1 /\ fetched = 0 /\ want = 1 /\ ui = 1 /\ n = 0 /\ buf = 0
        /\ ended = FALSE /\ files = 0 /\ result = "run" /\ lastreq = << 0, 0 >>

\* One Read(req) call: the environment's answers.
\* got = bytes returned (0 means "error only"), end = error returned with it
Answers(req) ==
    LET left == Avail - fetched IN
    IF left <= 0 THEN { [got |-> 0, end |-> TRUE] }
    ELSE { [got |-> g, end |-> FALSE] : g \in 1..(IF req < left THEN req ELSE left) }
         \cup (IF DataWithErr /\ left <= req THEN { [got |-> left, end |-> TRUE] } ELSE {})

Fail == /\ result' = "err" /\ pc' = "done"
        /\ UNCHANGED << k, want, ui, n, buf, files >>

\* io.ReadFull / binary.Read loops (header size byte, header rest, CRC):
\* an error with fewer bytes than wanted fails; got = want succeeds even if
\* the error came along (io.ReadFull drops it).
\* is a an answer the environment may give to Read(req)?
ValidAnswer(req, a) ==
    LET left == Avail - fetched IN
    IF left <= 0 THEN a.got = 0 /\ a.end
    ELSE \/ (~a.end /\ a.got >= 1 /\ a.got <= req /\ a.got <= left)
         \/ (DataWithErr /\ a.end /\ left <= req /\ a.got = left)

ReadFullStepA(a, onDone(_)) ==
        /\ ValidAnswer(want, a)
        /\ lastreq' = << fetched, want >>
        /\ fetched' = fetched + a.got
        /\ ended' = (ended \/ a.end)
        /\ IF a.got = want THEN onDone(a)
           ELSE IF a.end THEN Fail
           ELSE /\ want' = want - a.got
                /\ UNCHANGED << pc, k, ui, n, buf, files, result >>

ReadSizeA(b) ==
            /\ pc = "size"
            /\ ReadFullStepA(b, LAMBDA a :
                   /\ pc' = "hdr" /\ want' = Files[k].h - 1
                   /\ UNCHANGED << k, ui, n, buf, files, result >>)

ReadHdrA(b) ==
           /\ pc = "hdr"
           /\ ReadFullStepA(b, LAMBDA a :
                  /\ IF Mode = "integrity"
                     THEN /\ pc' = IF DataLen(k) = 0 THEN "crc" ELSE "copy"      \* a LimitedReader of 0 bytes answers EOF without reading
                          /\ want' = IF DataLen(k) = 0 THEN 2 ELSE DataLen(k)
                     ELSE /\ pc' = IF Files[k].units = << >> THEN "crc" ELSE "unit"
                          /\ want' = IF Files[k].units = << >> THEN 2 ELSE Files[k].units[1]
                  /\ ui' = 1 /\ n' = 0 /\ buf' = 0
                  /\ UNCHANGED << k, files, result >>)

\* io.CopyN(d.crc, d.r, DataSize): io.Copy over a LimitedReader with a buffer of
\* min(CopyBuf, DataSize) bytes; bytes that arrive together with an error are
\* still written, and the error is dropped when they complete the count
CopyReq == IF CopyBuf < want THEN CopyBuf ELSE want
CopyA(a) ==
        /\ pc = "copy"
        /\ ValidAnswer(CopyReq, a)
        /\ lastreq' = << fetched, CopyReq >>
        /\ fetched' = fetched + a.got
        /\ ended' = (ended \/ a.end)
        /\ IF a.got = want THEN /\ pc' = "crc" /\ want' = 2
                                 /\ UNCHANGED << k, ui, n, buf, files, result >>
           ELSE IF a.end THEN Fail
           ELSE /\ want' = want - a.got
                /\ UNCHANGED << pc, k, ui, n, buf, files, result >>

\* readByte / readFull: take from the buffer, fill when it is empty
Take == /\ pc = "unit" /\ buf > 0
        /\ LET t == IF buf < want THEN buf ELSE want IN
           /\ buf' = buf - t /\ n' = n + t
           /\ IF want - t = 0
              THEN IF ui = Len(Files[k].units)
                   THEN /\ pc' = "crc" /\ want' = 2 /\ ui' = ui      \* decodeFileData loop ends when n = limit
                   ELSE /\ ui' = ui + 1 /\ want' = Files[k].units[ui + 1] /\ pc' = pc
              ELSE /\ want' = want - t /\ ui' = ui /\ pc' = pc
        /\ UNCHANGED << k, fetched, ended, files, result, lastreq >>

FillReq == IF BufSize < Limit - n THEN BufSize ELSE Limit - n
FillA(a) ==
        /\ pc = "unit" /\ buf = 0
        /\ IF n = Limit THEN Fail /\ UNCHANGED << fetched, ended, lastreq >>     \* "data beyond data size": no Read call
           ELSE /\ ValidAnswer(FillReq, a)
                /\ lastreq' = << fetched, FillReq >>
                /\ fetched' = fetched + a.got
                /\ ended' = (ended \/ a.end)
                /\ IF a.got > 0 THEN /\ buf' = a.got      \* n > 0 clears the error of this call
                                     /\ UNCHANGED << pc, k, want, ui, n, files, result >>
                   ELSE Fail

ReadCRCA(b) ==
           /\ pc = "crc"
           /\ ReadFullStepA(b, LAMBDA a :
                  /\ files' = files + 1
                  /\ IF Mode = "integrity"
                     THEN /\ pc' = "done" /\ result' = "ok" /\ k' = k /\ want' = 0      \* CheckIntegrity returns: one frame, no chain
                     ELSE /\ result' = result
                          /\ IF k = Len(Files)
                             THEN /\ pc' = "next" /\ k' = k + 1 /\ want' = 1     \* DecodeChained probes for another file
                             ELSE /\ pc' = "size" /\ k' = k + 1 /\ want' = 1
                  /\ UNCHANGED << ui, n, buf >>)

\* DecodeChained after the last file: binary.Read of the next size byte.
\* Only a clean EOF (errReadSize) ends the chain silently.
ProbeA(a) ==
         /\ pc = "next"
         /\ ValidAnswer(1, a)
         /\ lastreq' = << fetched, 1 >>
         /\ fetched' = fetched + a.got
         /\ ended' = (ended \/ a.end)
         /\ pc' = "done"
         /\ result' = IF a.got = 0 /\ (~Fault \/ PreFixChainRule) THEN "ok" ELSE "err"   \* garbage after the chain, or a fault: error
         /\ UNCHANGED << k, want, ui, n, buf, files >>

\* the adversarial environment: any valid answer
ReadSize == \E a \in Answers(want) : ReadSizeA(a)
ReadHdr == \E a \in Answers(want) : ReadHdrA(a)
ReadCRC == \E a \in Answers(want) : ReadCRCA(a)
Copy == pc = "copy" /\ \E a \in Answers(CopyReq) : CopyA(a)
Fill == /\ pc = "unit" /\ buf = 0
        /\ IF n = Limit THEN FillA([got |-> 0, end |-> TRUE]) ELSE \E a \in Answers(FillReq) : FillA(a)
Probe == \E a \in Answers(1) : ProbeA(a)

Next == (ReadSize \/ ReadHdr \/ Take \/ Fill \/ Copy \/ ReadCRC \/ Probe) /\ UNCHANGED << fset, Avail, Fault >>

Spec == Init /\ [][Next]_vars /\ WF_vars(Next)

---------------------------------------------------------------------------
(* Contract (Frame) *)

FrameOf(off) == IF \E j \in 1..Len(Files) : StartOf(j) <= off /\ off < StartOf(j) + FrameLen(j)
                THEN CHOOSE j \in 1..Len(Files) : StartOf(j) <= off /\ off < StartOf(j) + FrameLen(j)
                ELSE 0

\* every Read request ends inside the frame it starts in
NeverPastFrame ==
    LET j == FrameOf(lastreq[1]) IN
    lastreq[2] = 0 \/ j = 0 \/ lastreq[1] + lastreq[2] <= StartOf(j) + FrameLen(j)

SuccessConsumesExactly == (pc = "done" /\ result = "ok") => fetched = Total

\* a stream cut or faulted anywhere but after its last frame is an error;
\* a fault exactly after the last frame is an error too
TruncationIsError == (pc = "done" /\ Avail < Total) => result = "err"
\* (CheckIntegrity stops after its frame: a fault behind it is never seen)
FaultIsError == (pc = "done" /\ Fault /\ (Mode = "decode" \/ Avail < Total)) => result = "err"
CleanEndIsOk == (pc = "done" /\ Avail = Total /\ ~Fault) => (result = "ok" /\ files = Len(Files))
\* files completed before the error are all there
PartialContent == pc = "done" =>
                    files = Cardinality({ j \in 1..Len(Files) : StartOf(j) + FrameLen(j) <= Avail })

Terminates == <>(pc = "done")
=============================================================================
