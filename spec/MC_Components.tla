--------------------------- MODULE MC_Components -----------------------------
(***************************************************************************)
(* Every sequence of up to MaxDepth tokens (component-bearing records and  *)
(* file boundaries of a chain) over a small alphabet:                      *)
(*   Meets       Impl = Contract on the whole sequence; holds when the     *)
(*               four deviation switches are off, and TLC must refute it   *)
(*               for each switch alone (the recorded findings, found at    *)
(*               model level)                                              *)
(*   EmitScript  prints every explored sequence; the harness builds the    *)
(*               chained FIT stream, runs the real DecodeChained and has   *)
(*               Trace_Components compare every derived value with         *)
(*               ImplOuts of the as-implemented switches                   *)
(***************************************************************************)
EXTENDS ComponentsImpl

CONSTANTS MaxDepth, MaxFiles, Emit, CheckMeets

Tokens == { << KFile, 0, 0 >> }
          \cup { << KCsd, s, d >> : << s, d >> \in { << 0, 0 >>, << 5, 1 >>, << 4095, 255 >>, << 1, 256 >>, << 2, 4095 >>, << 4095, 4095 >> } }
          \cup { << KCyc, v, 0 >> : v \in {0, 100, 200, 255} }
          \cup { << KPow, v, 0 >> : v \in {0, 40000, 65534, 65535} }
          \cup { << KSpd, 1000, 0 >> }

VARIABLE hist
Init == hist = << >>
NFiles(h) == 1 + Cardinality({ j \in DOMAIN h : h[j][1] = KFile })
Next == /\ Len(hist) < MaxDepth
        /\ \E t \in Tokens :
             /\ t[1] = KFile => (NFiles(hist) < MaxFiles /\ hist # << >>)
             /\ hist' = Append(hist, t)
Spec == Init /\ [][Next]_hist

Meets == CheckMeets => ImplMeetsContract(hist)
EmitScript == Emit => PrintT("CSCRIPT " \o ToString(hist))
=============================================================================
