------------------------------ MODULE Trace_Api ------------------------------
(***************************************************************************)
(* Validates recorded call histories / concurrent runs of the real library *)
(* against the Api contract: every call returns Pure(api, input), and no   *)
(* data race is observed.  Pure is tabulated by running each call first in *)
(* a fresh process (pure.json: key -> digest of the projected result).     *)
(*                                                                         *)
(* trace.ndjson: one history per line: [id, events], an event being        *)
(*   [kind |-> "call", g |-> goroutine, key |-> api/input key, result |-> digest]  *)
(*   [kind |-> "race", a |-> function, b |-> function]   (race detector)   *)
(***************************************************************************)
EXTENDS Integers, Sequences, TLC, Json

Traces == ndJsonDeserialize("trace.ndjson")
PureTab == JsonDeserialize("pure.json")
Pure(key) == PureTab[key]

VARIABLES t, k
tvars == << t, k >>

ASSUME TLCSet(1, 0) /\ TLCSet(2, << >>)
Note(rec) == TLCSet(2, Append(TLCGet(2), rec))

Init == t = 1 /\ k = 1

Event == /\ k <= Len(Traces[t].events)
         /\ LET e == Traces[t].events[k] IN
            CASE e.kind = "call" ->
                   IF e.result = Pure(e.key) THEN TRUE
                   ELSE Note([trace |-> Traces[t].id, event |-> k, what |-> "result differs from the fresh-process result", key |-> e.key, g |-> e.g])
              [] e.kind = "race" -> Note([trace |-> Traces[t].id, event |-> k, what |-> "data race", a |-> e.a, b |-> e.b])
              [] OTHER -> TRUE
         /\ k' = k + 1 /\ t' = t

NextTrace == /\ k > Len(Traces[t].events)
             /\ TLCSet(1, TLCGet(1) + 1)
             /\ t' = t + 1 /\ k' = 1

Next == t <= Len(Traces) /\ (Event \/ NextTrace)
TSpec == Init /\ [][Next]_tvars

Post == /\ ndJsonSerialize("mismatch.ndjson", TLCGet(2))
        /\ PrintT(<< "TRACES", TLCGet(1), Len(Traces), "MISMATCHES", Len(TLCGet(2)) >>)
        /\ TLCGet(1) = Len(Traces)
        /\ TLCGet(2) = << >>
=============================================================================
