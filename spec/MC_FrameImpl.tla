---------------------------- MODULE MC_FrameImpl ----------------------------
EXTENDS FrameImpl
\* small chains: a 12-byte header with three units, a 14-byte header with
\* a unit larger than the buffer, and a file without data
MC_Files1 == << << [h |-> 12, units |-> << 1, 5, 3 >>] >> >>
MC_Files2 == << << [h |-> 12, units |-> << 1, 5, 3 >>], [h |-> 14, units |-> << 9, 1 >>] >> >>
MC_Files3 == << << [h |-> 14, units |-> << 2, 2 >>], [h |-> 12, units |-> << >>], [h |-> 12, units |-> << 7 >>] >> >>
=============================================================================
