---------------------------- MODULE MC_FrameImpl ----------------------------
EXTENDS FrameImpl
\* small chains: a 12-byte header with three units, a 14-byte header with
\* a unit larger than the buffer, and a file without data
D == "decode"  I == "integrity"
MC_Files1 == << << [h |-> 12, units |-> << 1, 5, 3 >>, mode |-> D] >> >>
MC_Files2 == << << [h |-> 12, units |-> << 1, 5, 3 >>, mode |-> D], [h |-> 14, units |-> << 9, 1 >>, mode |-> D] >> >>
MC_Files3 == << << [h |-> 14, units |-> << 2, 2 >>, mode |-> D], [h |-> 12, units |-> << >>, mode |-> D], [h |-> 12, units |-> << 7 >>, mode |-> D] >> >>
\* CheckIntegrity: data larger than the copy buffer, data smaller, no data at all (followed by bytes that are not its own)
MC_Files4 == << << [h |-> 12, units |-> << 11 >>, mode |-> I] >> >>
MC_Files5 == << << [h |-> 14, units |-> << 3 >>, mode |-> I] >> >>
MC_Files6 == << << [h |-> 14, units |-> << >>, mode |-> I] >> >>
=============================================================================
