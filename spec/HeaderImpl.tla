----------------------------- MODULE HeaderImpl ------------------------------
(***************************************************************************)
(* The three header routines of header.go (Impl), transcribed check by     *)
(* check and in the order the code makes them:                             *)
(*   decodeHeader          (used by Decode, DecodeChained, DecodeHeader,   *)
(*                          DecodeHeaderAndFileID and CheckIntegrity)      *)
(*   Header.CheckIntegrity (works on the struct, rebuilds the 14 bytes)    *)
(*   Header.MarshalBinary  (used by Encode)                                *)
(* and the Contract of C04's header clause:                                *)
(*   a header with a stored non-zero CRC is accepted iff that CRC is the   *)
(*   CRC-16/ARC of its first 12 bytes, by every routine alike              *)
(* The code does not compare the stored CRC: it feeds all 14 bytes to the  *)
(* running checksum and tests the residue; that the two are the same is    *)
(* part of what TLC checks here (on every header of the domain).           *)
(*                                                                         *)
(* PreFixMethodNoFeed re-creates the defect repaired by 3d277e4: the       *)
(* method built the 14 bytes but never wrote them to the checksum.         *)
(***************************************************************************)
EXTENDS Crc16, Integers, FiniteSets, TLC

CONSTANT PreFixMethodNoFeed

DotFIT == << 46, 70, 73, 84 >>
U16(v) == << v % 256, v \div 256 >>

\* a header value (the Go struct): size, proto, profile, ds (4 bytes), dtype (4 bytes), crc
First12(h) == << h.size, h.proto >> \o U16(h.profile) \o h.ds \o h.dtype
Wire(h) == IF h.size = 14 THEN First12(h) \o U16(h.crc) ELSE First12(h)

Major(p) == p \div 16
MaxMajor == 2                   \* CurrentProtocolVersion().Major()

---------------------------------------------------------------------------
(* decodeHeader: in = the bytes the reader delivers (at least Len 1) *)
DecodeHeaderImpl(in) ==
    LET sz == in[1] IN
    IF sz # 14 /\ sz # 12 THEN [err |-> "size"]
    ELSE IF Len(in) < sz THEN [err |-> "read"]
    ELSE LET tmp == SubSeq(in, 2, sz)                 \* d.tmp[:Size-1]
             h0  == [size |-> sz, proto |-> tmp[1], profile |-> tmp[2] + 256 * tmp[3],
                     ds |-> SubSeq(tmp, 4, 7), dtype |-> SubSeq(tmp, 8, 11), crc |-> 0]
             reg == CrcFold(CrcFold(0, << sz >>), tmp)      \* d.crc after the two Writes
         IN
         IF Major(tmp[1]) > MaxMajor THEN [err |-> "proto"]
         ELSE IF SubSeq(tmp, 8, 11) # DotFIT THEN [err |-> "notfit"]
         ELSE IF sz = 12 THEN [err |-> "none", h |-> h0, reg |-> reg]
         ELSE LET stored == tmp[12] + 256 * tmp[13] IN
              IF stored = 0 THEN [err |-> "none", h |-> [h0 EXCEPT !.crc = 0], reg |-> reg]
              ELSE IF reg # 0 THEN [err |-> "crc"]
              ELSE [err |-> "none", h |-> [h0 EXCEPT !.crc = stored], reg |-> reg]

(* Header.CheckIntegrity *)
MethodImpl(h) ==
    IF Major(h.proto) > MaxMajor THEN "proto"
    ELSE IF h.dtype # DotFIT THEN "notfit"
    ELSE IF h.size = 12 THEN "none"
    ELSE IF h.crc = 0 THEN "none"
    ELSE LET bh  == First12(h) \o U16(h.crc)       \* (the code indexes 14 bytes of a Size-long buffer: sizes 12 / 14 only)
             reg == IF PreFixMethodNoFeed THEN 0 ELSE CrcFold(0, bh)
         IN  IF reg # 0 THEN "crc" ELSE "none"

(* Header.MarshalBinary: the stored CRC of the value is ignored, the *)
(* checksum of the 12 bytes written so far is appended for size 14    *)
MarshalImpl(h) ==
    LET b == First12(h) IN
    IF h.size = 14 THEN b \o U16(Crc(b)) ELSE b

---------------------------------------------------------------------------
(* Contract *)
FieldsOK(h) == Major(h.proto) <= MaxMajor /\ h.dtype = DotFIT
CrcOK(h) == h.size = 12 \/ h.crc = 0 \/ h.crc = Crc(First12(h))
HeaderOK(h) == h.size \in {12, 14} /\ FieldsOK(h) /\ CrcOK(h)

\* the reason the Contract gives, in the order the property lists them
Expected(h) == IF h.size \notin {12, 14} THEN "size"
               ELSE IF Major(h.proto) > MaxMajor THEN "proto"
               ELSE IF h.dtype # DotFIT THEN "notfit"
               ELSE IF ~CrcOK(h) THEN "crc" ELSE "none"

---------------------------------------------------------------------------
(* the domain TLC enumerates *)
Sizes == {12, 14, 0, 13, 255}
Protos == {0, 16, 32, 47, 48, 255}
Profiles == {0, 2140, 65535}
DataSizes == { << 0, 0, 0, 0 >>, << 1, 2, 3, 4 >>, << 255, 255, 255, 255 >> }
DTypes == { DotFIT, << 46, 70, 73, 83 >>, << 120, 70, 73, 84 >> }
CrcsOf(h12) == LET g == Crc(h12) IN {0, g, (g + 1) % 65536, (g + 256) % 65536, 1, 65535, 65536 - 1 - g}

Headers == UNION { { [size |-> s, proto |-> p, profile |-> f, ds |-> d, dtype |-> t, crc |-> c] :
                       c \in CrcsOf(<< s, p >> \o U16(f) \o d \o t) } :
                   s \in Sizes, p \in Protos, f \in Profiles, d \in DataSizes, t \in DTypes }

\* what the reader delivers for a header value of any size: the 12 / 14 wire
\* bytes when the size is legal, else just bytes starting with the size
WireAny(h) == IF h.size \in {12, 14} THEN Wire(h) ELSE << h.size >> \o SubSeq(First12(h), 2, 12)

DecodeSound == \A h \in Headers : DecodeHeaderImpl(WireAny(h)).err = Expected(h)
MethodSound == \A h \in Headers : h.size \in {12, 14} => MethodImpl(h) = Expected(h)
Agree == \A h \in Headers : h.size \in {12, 14} => MethodImpl(h) = DecodeHeaderImpl(Wire(h)).err
\* decodeHeader returns the header that was sent (the CRC field only for size 14)
DecodeReturns ==
    \A h \in Headers : HeaderOK(h) =>
        DecodeHeaderImpl(Wire(h)).h = [h EXCEPT !.crc = IF h.size = 14 THEN h.crc ELSE 0]
\* what MarshalBinary writes is accepted by both checkers, whatever CRC the value carried,
\* and decodes to the same header with the computed CRC
MarshalRoundTrip ==
    \A h \in Headers : (h.size \in {12, 14} /\ FieldsOK(h)) =>
        LET w == MarshalImpl(h)  r == DecodeHeaderImpl(w) IN
        /\ r.err = "none"
        /\ r.h = [h EXCEPT !.crc = IF h.size = 14 THEN Crc(First12(h)) ELSE 0]
        /\ MethodImpl(r.h) = "none"
\* after an accepted 14-byte header with a stored CRC the running checksum is 0:
\* the file CRC of such files equals the CRC of the data alone
RegisterAfter ==
    \A h \in Headers : (HeaderOK(h) /\ h.size = 14 /\ h.crc # 0) => DecodeHeaderImpl(Wire(h)).reg = 0

NHeaders == Cardinality(Headers)
=============================================================================
