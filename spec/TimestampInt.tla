---------------------------- MODULE TimestampInt ----------------------------
(***************************************************************************)
(* C12, unbounded: the compressed-timestamp arithmetic over the integers   *)
(* (no 2^32 wrap; the wrap is covered by TimestampImpl on byte tuples).    *)
(* Impl keeps (ts, last) and adds (off - last) mod 32; the Contract adds   *)
(* (off - ts mod 32) mod 32.  IndInv is inductive (checked by Apalache     *)
(* for all integers) and implies that both agree forever and that every    *)
(* compressed step lands on the least t >= reference congruent to off.     *)
(***************************************************************************)
EXTENDS Integers

VARIABLES
    \* @type: Int;
    its,
    \* @type: Int;
    ilast,
    \* @type: Int;
    cts

Init == its = 0 /\ ilast = 0 /\ cts = 0

Exp(u) == /\ u > 0 /\ its' = u /\ ilast' = u % 32 /\ cts' = u

Comp(off) ==
    /\ off \in 0..31
    /\ IF its = 0 THEN its' = its /\ ilast' = ilast /\ cts' = cts
       ELSE /\ its' = its + ((off - ilast) % 32)
            /\ ilast' = off
            /\ cts' = cts + ((off - (cts % 32)) % 32)

Next == (\E u \in 1..4294967295 : Exp(u)) \/ (\E off \in 0..31 : Comp(off))

\* inductive invariant
IndInv == /\ its >= 0 /\ cts = its
          /\ ilast \in 0..31
          /\ (its # 0 => ilast = its % 32)

IndInit == /\ its \in Nat /\ cts = its
           /\ ilast \in 0..31
           /\ (its # 0 => ilast = its % 32)

\* what a compressed step achieves: the least t >= reference with t = off (mod 32)
\* (an action invariant; Apalache checks it on every transition from IndInv)
CompStep == \E off \in 0..31 : Comp(off)
StepIsLeast == (CompStep /\ its # 0) => (its' >= its /\ its' < its + 32 /\ its' % 32 = ilast' /\ cts' = its')
=============================================================================
