-------------------------- MODULE Trace_Components ---------------------------
(***************************************************************************)
(* Code ~ Impl for component expansion: every recorded decode of a token   *)
(* script must give, value for value, what ComponentsImpl computes with    *)
(* the switches of the code as it is.  trace.ndjson: one line per script   *)
(*   [id, toks |-> << <<kind, a, b>>, ... >>, outs |-> << [speed, dist,    *)
(*    tc, ap, es], ... >>]   (-1 = the field holds its invalid value)      *)
(* A mismatch record says whether the observed values are the Contract's   *)
(* (the deviation was repaired: drift of this transcription) or neither.   *)
(***************************************************************************)
EXTENDS Json, Integers, Sequences, TLC

AsIs == INSTANCE ComponentsImpl WITH ByteShift <- TRUE, MaskZero <- TRUE, SharedAcc <- TRUE, EnhBefore <- TRUE

Traces == ndJsonDeserialize("trace.ndjson")

ASSUME TLCSet(1, 0) /\ TLCSet(2, << >>)
Note(rec) == TLCSet(2, Append(TLCGet(2), rec))
Must(cond, rec) == IF cond THEN TRUE ELSE Note(rec)

Norm(o) == [speed |-> o.speed, dist |-> o.dist, tc |-> o.tc, ap |-> o.ap, es |-> o.es]
Obs(t) == [ i \in DOMAIN t.outs |-> Norm(t.outs[i]) ]
\* the Contract leaves enhanced_speed open when speed is derived from the compressed field
SameButEs(a, b) == /\ Len(a) = Len(b)
                   /\ \A i \in DOMAIN a : [a[i] EXCEPT !.es = 0] = [b[i] EXCEPT !.es = 0]

VARIABLE k
Init == k = 1
Next == /\ k <= Len(Traces)
        /\ LET t == Traces[k]
               exp == AsIs!ImplOuts(t.toks)
               obs == Obs(t)
           IN  Must(exp = obs, [trace |-> t.id, what |-> "component values", expected |-> exp, observed |-> obs,
                                contract |-> SameButEs(obs, AsIs!ContractOuts(t.toks))])
        /\ TLCSet(1, TLCGet(1) + 1)
        /\ k' = k + 1
TSpec == Init /\ [][Next]_k

Post == /\ ndJsonSerialize("mismatch.ndjson", TLCGet(2))
        /\ PrintT(<< "TRACES", TLCGet(1), Len(Traces), "MISMATCHES", Len(TLCGet(2)) >>)
        /\ TLCGet(1) = Len(Traces)
        /\ TLCGet(2) = << >>
=============================================================================
