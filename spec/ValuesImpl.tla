----------------------------- MODULE ValuesImpl ------------------------------
(***************************************************************************)
(* C02, scalar fields: transcription of the scratch-buffer handling of     *)
(* reader.go:parseDataFields (zero fill / right alignment of fields        *)
(* narrower than the profile type) and of parseFitField (the value is read *)
(* with the definition's base type and size, converted through that type   *)
(* and stored with SetInt / SetUint, which truncates to the struct field's *)
(* width), compared with the Contract FitValues!ScalarVal for every        *)
(* integer-like profile type x every compatible definition type x both     *)
(* byte orders x all byte patterns over {00, 01, 7F, 80, FF}.              *)
(* The two switches reproduce the defects repaired by 54070e0 and 45b41e1: *)
(* with either set the comparison must fail (non-vacuity).                 *)
(***************************************************************************)
EXTENDS FitValues, FiniteSets

CONSTANTS PreFixBEShift, PreFixNoSignExt

\* tmp after readFull(tmp[0:dsize]) and the padding step; 8 bytes are enough
TmpAfterPadding(raw, w, arch, native) ==
    LET dsize == Len(raw)
        t0 == raw \o Fill(8 - dsize, 170)            \* stale scratch bytes beyond dsize
        pad == w - dsize
    IN  IF pad = 0 THEN t0
        ELSE IF arch = 0 THEN [j \in 1..8 |-> IF j > dsize /\ j <= w THEN 0 ELSE t0[j]]
        ELSE IF PreFixBEShift
             THEN \* for j := 0; j < w; j++ { tmp[j], tmp[j+pad] = 0, tmp[j] }  (ascending: cascades the zero)
                  LET RECURSIVE Loop(_, _)
                      Loop(t, j) == IF j >= w THEN t
                                    ELSE Loop([x \in 1..8 |-> IF x = j + 1 THEN 0 ELSE IF x = j + pad + 1 THEN t[j + 1] ELSE t[x]], j + 1)
                  IN Loop(t0, 0)
        ELSE IF native THEN t0                       \* native fields are read with the definition's size
        ELSE [j \in 1..8 |-> IF j <= pad THEN 0 ELSE IF j <= w THEN t0[j - pad] ELSE t0[j]]

\* parseFitField for definition base index i on a struct field of width w
ImplScalar(p, i, raw, arch) ==
    LET w   == SizeOf(p.b)
        tmp == TmpAfterPadding(raw, w, arch, TRUE)
        n   == SizeOf(i)                              \* bytes the definition's type reads
        le  == Norm(SubSeq(tmp, 1, n), arch)
        wide == IF SignedB(i) /\ ~PreFixNoSignExt THEN SignExt(le, 8) ELSE ZeroExt(le, 8)   \* int64 / uint64
        v   == SubSeq(wide, 1, w)                     \* SetInt / SetUint truncate to the field's size
    IN  IF v = InvalidOf(p.b) THEN Absent ELSE v

IntLikeIdx == { i \in 0..16 : IntLike(i) /\ SizeOf(i) <= 4 }
Patterns == {0, 1, 127, 128, 255}
RECURSIVE Words(_)
Words(n) == IF n = 0 THEN {<< >>} ELSE { Append(x, b) : x \in Words(n - 1), b \in Patterns }

Agree ==
    \A pb \in IntLikeIdx : \A i \in IntLikeIdx :
      (SignedB(i) = SignedB(pb) /\ SizeOf(i) <= SizeOf(pb)) =>
        \A arch \in {0, 1} : \A raw \in Words(SizeOf(i)) :
          LET p == [b |-> pb, a |-> 0, k |-> 0]
              c == ScalarVal(p, i, raw, arch)
          IN  c = Unpinned \/ c = ImplScalar(p, i, raw, arch)

Cases == Cardinality({ << pb, i >> \in IntLikeIdx \X IntLikeIdx : SignedB(i) = SignedB(pb) /\ SizeOf(i) <= SizeOf(pb) })
=============================================================================
