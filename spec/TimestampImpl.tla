--------------------------- MODULE TimestampImpl ----------------------------
(***************************************************************************)
(* C12, compressed timestamps: the decoder's arithmetic (Impl,             *)
(* reader.go:parseDataMessage / parseTimeStamp: a uint32 reference, an     *)
(* int32 lastTimeOffset, `timestamp += uint32((off - last) & 0x1F)`)       *)
(* against the rule of the protocol (Contract: the least t >= reference    *)
(* with t = off (mod 32), re-based by explicit timestamps), run in         *)
(* lockstep over explicit timestamps drawn from boundary values (around    *)
(* 0, 32, 2^28 and 2^32) and all 32 offsets.                               *)
(***************************************************************************)
EXTENDS Bytes, TLC

CONSTANTS Explicit,   \* set of 4-byte tuples: explicit timestamp values
          MaxOps,
          ImplMod     \* 32 in the code (compressedTimeMask + 1); another value only to show that the model notices

VARIABLES its, ilast,   \* Impl: timestamp, lastTimeOffset
          cts,          \* Contract: reference (<<0,0,0,0>> = none)
          n
vars == << its, ilast, cts, n >>

Zero == << 0, 0, 0, 0 >>
Init == its = Zero /\ ilast = 0 /\ cts = Zero /\ n = 0

Low5(t) == t[1] % 32

\* an explicit timestamp field (253) of a known message
Exp(u) == /\ n < MaxOps /\ n' = n + 1
          /\ its' = u /\ ilast' = Low5(u)
          /\ cts' = u

\* a compressed-timestamp header with 5-bit offset off
Comp(off) ==
    /\ n < MaxOps /\ n' = n + 1
    /\ IF its = Zero THEN UNCHANGED << its, ilast >>            \* "no previous reference time"
       ELSE /\ its' = U32AddSmall(its, ((off - ilast) + 32) % ImplMod)   \* (off - last) & 0x1F on int32
            /\ ilast' = off
    /\ IF cts = Zero THEN UNCHANGED cts
       ELSE cts' = U32AddSmall(cts, ((off - Low5(cts)) + 32) % 32)

Next == (\E u \in Explicit : Exp(u)) \/ (\E off \in 0..31 : Comp(off))
Spec == Init /\ [][Next]_vars

\* the Impl's reference is the Contract's, except that a reference that
\* wraps to exactly 0 reads as "none" in both
SameReference == its = cts
\* the bookkeeping invariant that makes the two formulas agree
LastIsLowBits == its # Zero => ilast = Low5(its)
\* rollover: a compressed step advances by less than 32 seconds
AdvanceBelow32 == [][\A off \in 0..31 : (Comp(off) /\ cts # Zero) => U32Sub(cts', cts).v[1] < 32 /\ U32Sub(cts', cts).v[2] = 0]_vars
=============================================================================
