----------------------------- MODULE Trace_Coord -----------------------------
(***************************************************************************)
(* Validates what the harness observed of latlng.go and time.go:           *)
(*   runs.json:  run-length encodings of Invalid() over the enumerated     *)
(*               domain, for Latitude and Longitude                        *)
(*   trace.ndjson: sampled values with everything observed about them      *)
(***************************************************************************)
EXTENDS Coord, Json, Sequences

Runs == JsonDeserialize("runs.json")
Samples == ndJsonDeserialize("trace.ndjson")

ASSUME TLCSet(1, 0) /\ TLCSet(2, << >>)
Note(rec) == TLCSet(2, Append(TLCGet(2), rec))

\* interval tables
ASSUME \A i \in DOMAIN Runs.lat : IF RunOK(LatClass, LatBreaks, Runs.lat[i]) THEN TRUE ELSE Note([what |-> "latitude Invalid() run", run |-> Runs.lat[i]])
ASSUME \A i \in DOMAIN Runs.lng : IF RunOK(LngClass, LngBreaks, Runs.lng[i]) THEN TRUE ELSE Note([what |-> "longitude Invalid() run", run |-> Runs.lng[i]])
\* runs must tile the enumerated points in order
ASSUME \A i \in 1..(Len(Runs.lat) - 1) : IF I32(Runs.lat[i][2]) < I32(Runs.lat[i + 1][1]) THEN TRUE ELSE Note([what |-> "latitude runs out of order"])

VARIABLE k
Init == k = 1

CheckCoord(e0) ==
    LET e == [e0 EXCEPT !.s = I32(e0.s), !.semis = I32(e0.semis), !.rt = I32(e0.rt)]
        cls == IF e.kind = "lat" THEN LatClass(e.s) ELSE LngClass(e.s)
        inside == IF e.kind = "lat" THEN cls = "valid" ELSE e.s # Sentinel /\ e.s # MinI
        w == [kind |-> e.kind, s |-> e0.s]
    IN
    /\ IF Agrees(cls, e.invalid = 1) THEN TRUE ELSE Note(w @@ [what |-> "Invalid()", observed |-> e.invalid])
    /\ IF (IF e.invalid = 1 THEN e.semis = Sentinel ELSE e.semis = e.s) THEN TRUE ELSE Note(w @@ [what |-> "Semicircles()", observed |-> e.semis])
    /\ IF (IsNaN(e.degbits) = (e.invalid = 1)) THEN TRUE ELSE Note(w @@ [what |-> "Degrees() NaN iff invalid", observed |-> e.degbits])
    /\ IF (e.invalid = 1 \/ DegreesBitsOK(e.s, e.degbits)) THEN TRUE ELSE Note(w @@ [what |-> "Degrees() = s * 180 / 2^31", observed |-> e.degbits])
    /\ IF (~inside \/ e.invalid = 1 \/ ((e.rt = e.s \/ (e.s < MaxI /\ e.rt = e.s + 1) \/ (e.s > MinI /\ e.rt = e.s - 1)) /\ e.rtinvalid = 0)) THEN TRUE ELSE Note(w @@ [what |-> "round trip through degrees", observed |-> e.rt])
    /\ IF (e.invalid = 1 \/ PrintedOK(e.s, e.printed)) THEN TRUE ELSE Note(w @@ [what |-> "printed form", observed |-> e.printed])
    /\ IF (e.invalid = 0 \/ e.printedinvalid = 1) THEN TRUE ELSE Note(w @@ [what |-> "printed form of an invalid coordinate"])

CheckTime(e) ==
    LET w == [kind |-> "time", u |-> e.u] IN
    /\ IF (Limbs8(e.unix) = TimeUnixL(e.u)) THEN TRUE ELSE Note(w @@ [what |-> "decodeDateTime(u) = epoch + u seconds", expected |-> TimeUnixL(e.u), observed |-> e.unix])
    /\ IF (e.back = e.u) THEN TRUE ELSE Note(w @@ [what |-> "encodeTime(decodeDateTime(u)) = u", observed |-> e.back])
    /\ IF ((e.isbase = 1) = (e.u = << 0, 0, 0, 0 >>)) THEN TRUE ELSE Note(w @@ [what |-> "IsBaseTime only at zero", observed |-> e.isbase])
    /\ IF (e.nanos = 0) THEN TRUE ELSE Note(w @@ [what |-> "whole seconds", observed |-> e.nanos])

Next == /\ k <= Len(Samples)
        /\ LET e == Samples[k] IN IF e.kind = "time" THEN CheckTime(e) ELSE CheckCoord(e)
        /\ TLCSet(1, TLCGet(1) + 1)
        /\ k' = k + 1
TSpec == Init /\ [][Next]_k

Post == /\ ndJsonSerialize("mismatch.ndjson", TLCGet(2))
        /\ PrintT(<< "TRACES", TLCGet(1), Len(Samples), "MISMATCHES", Len(TLCGet(2)) >>)
        /\ TLCGet(1) = Len(Samples)
        /\ TLCGet(2) = << >>
=============================================================================
