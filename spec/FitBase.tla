------------------------------- MODULE FitBase ------------------------------
(***************************************************************************)
(* The 17 FIT base types, by 5-bit index (protocol document, table 4-6).   *)
(***************************************************************************)
EXTENDS Bytes

BSize     == << 1, 1, 1, 2, 2, 4, 4, 1, 4, 8, 1, 2, 4, 1, 8, 8, 8 >>
BSignedT  == << FALSE, TRUE, FALSE, TRUE, FALSE, TRUE, FALSE, FALSE, TRUE, TRUE,
                FALSE, FALSE, FALSE, FALSE, TRUE, FALSE, FALSE >>
\* the base type byte as it appears on the wire (bit 7 = multi-byte)
BCode     == << 0, 1, 2, 131, 132, 133, 134, 7, 136, 137, 10, 139, 140, 13, 142, 143, 144 >>

SizeOf(i)   == BSize[i + 1]
SignedB(i)  == BSignedT[i + 1]
FloatB(i)   == i \in {8, 9}
StringB(i)  == i = 7
IntLike(i)  == ~FloatB(i) /\ ~StringB(i)       \* enum, byte, (u)intN(z)

NamedBase(byte) == \E i \in 0..16 : BCode[i + 1] = byte
IdxOf(byte) == byte % 32

\* what the protocol calls a valid base type byte: index < 17 and the
\* multi-byte flag consistent with the size (bits 5..6 are reserved)
ProtocolKnown(byte) == /\ byte % 32 < 17
                       /\ ((byte \div 128) = 1) <=> (SizeOf(byte % 32) > 1)

InvalidOf(i) ==
    CASE i \in {0, 2, 13} -> << 255 >>
      [] i = 1  -> << 127 >>
      [] i = 3  -> << 255, 127 >>
      [] i = 4  -> << 255, 255 >>
      [] i = 5  -> << 255, 255, 255, 127 >>
      [] i \in {6, 8} -> << 255, 255, 255, 255 >>
      [] i \in {9, 15} -> Fill(8, 255)
      [] i = 10 -> << 0 >>
      [] i = 11 -> << 0, 0 >>
      [] i = 12 -> << 0, 0, 0, 0 >>
      [] i = 14 -> Fill(7, 255) \o << 127 >>
      [] i = 16 -> Fill(8, 0)
      [] i = 7  -> << >>
=============================================================================
