---------------------------- MODULE MC_StringImpl ----------------------------
(* StringImpl over every string of up to MaxChars characters (1- to 4-byte)  *)
(* and every field size 1..MaxSize. Expect = TRUE for Cut = "for" (the code); *)
(* the "if" and "none" variants must fail (Expect = FALSE), and TLC prints    *)
(* how many cases they break.                                                 *)
EXTENDS StringImpl
CONSTANTS MaxChars, MaxSize, Expect
ASSUME PrintT(<< "CASES", Cardinality(Cases(MaxChars, MaxSize)), "FAILING", Cardinality(Failing(MaxChars, MaxSize)) >>)
ASSUME AllMeet(MaxChars, MaxSize) = Expect
VARIABLE d
Init == d = 0
Next == UNCHANGED d
=============================================================================
