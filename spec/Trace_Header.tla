---------------------------- MODULE Trace_Header -----------------------------
(***************************************************************************)
(* Code ~ Impl for header.go: every recorded call of DecodeHeader,         *)
(* Header.CheckIntegrity and Header.MarshalBinary must be what HeaderImpl  *)
(* computes - the same verdict for the same reason (error class), the same *)
(* returned header, the same bytes.                                        *)
(* trace.ndjson events:                                                    *)
(*   [op |-> "decode",  in, err, h]    DecodeHeader(bytes.NewReader(in))   *)
(*   [op |-> "method",  h, err]        h.CheckIntegrity()                  *)
(*   [op |-> "marshal", h, out]        h.MarshalBinary()                   *)
(* err: "none" | "size" | "proto" | "notfit" | "crc" | "read" | "other"    *)
(* h:   [size, proto, profile, ds (4 bytes), dtype (4 bytes), crc]         *)
(* A mismatch record carries contract = TRUE when the disagreement is      *)
(* about the CRC clause of C04 (accept / reject for the CRC's sake), else  *)
(* it is drift between the code and this transcription.                    *)
(***************************************************************************)
EXTENDS Json, Integers, Sequences, TLC

H == INSTANCE HeaderImpl WITH PreFixMethodNoFeed <- FALSE

Events == ndJsonDeserialize("trace.ndjson")

ASSUME TLCSet(1, 0) /\ TLCSet(2, << >>)
Note(rec) == TLCSet(2, Append(TLCGet(2), rec))
Must(cond, rec) == IF cond THEN TRUE ELSE Note(rec)

\* the CRC clause of C04 for a 14-byte header given as bytes: "mismatch" must be
\* rejected by every routine whatever else the header holds; "match" must be
\* accepted by every routine when nothing else is wrong with the header
CrcState(b) == IF Len(b) < 14 \/ b[1] # 14 THEN "n/a"
               ELSE LET stored == b[13] + 256 * b[14] IN
                    IF stored = 0 THEN "zero"
                    ELSE IF stored = H!Crc(SubSeq(b, 1, 12)) THEN "match" ELSE "mismatch"
BreaksClause(cs, exp, obs) == (cs = "mismatch" /\ obs = "none") \/ (cs = "match" /\ exp = "none" /\ obs # "none")

HRec(j) == [size |-> j.size, proto |-> j.proto, profile |-> j.profile, ds |-> j.ds, dtype |-> j.dtype, crc |-> j.crc]

CheckDecode(e, k) ==
    LET r == H!DecodeHeaderImpl(e.in) IN
    /\ Must(r.err = e.err, [event |-> k, what |-> "DecodeHeader verdict", expected |-> r.err, observed |-> e.err, contract |-> BreaksClause(CrcState(e.in), r.err, e.err)])
    /\ IF r.err = "none" /\ e.err = "none"
       THEN Must(r.h = HRec(e.h), [event |-> k, what |-> "DecodeHeader returned header", expected |-> r.h, observed |-> HRec(e.h), contract |-> FALSE])
       ELSE TRUE

CheckMethod(e, k) ==
    LET x == H!MethodImpl(HRec(e.h)) IN
    Must(x = e.err, [event |-> k, what |-> "Header.CheckIntegrity verdict", expected |-> x, observed |-> e.err, contract |-> BreaksClause(CrcState(H!Wire(HRec(e.h))), x, e.err)])

CheckMarshal(e, k) ==
    LET w == H!MarshalImpl(HRec(e.h)) IN
    Must(w = e.out, [event |-> k, what |-> "Header.MarshalBinary bytes", expected |-> w, observed |-> e.out, contract |-> FALSE])

VARIABLE k
Init == k = 1
Next == /\ k <= Len(Events)
        /\ LET e == Events[k] IN
           CASE e.op = "decode" -> CheckDecode(e, k)
             [] e.op = "method" -> CheckMethod(e, k)
             [] e.op = "marshal" -> CheckMarshal(e, k)
        /\ TLCSet(1, TLCGet(1) + 1)
        /\ k' = k + 1
TSpec == Init /\ [][Next]_k

Post == /\ ndJsonSerialize("mismatch.ndjson", TLCGet(2))
        /\ PrintT(<< "TRACES", TLCGet(1), Len(Events), "MISMATCHES", Len(TLCGet(2)) >>)
        /\ TLCGet(1) = Len(Events)
        /\ TLCGet(2) = << >>
=============================================================================
