---------------------------- MODULE MC_ValuesImpl ----------------------------
EXTENDS ValuesImpl
CONSTANT Expect
ASSUME Agree = Expect
ASSUME PrintT(<< "CASES", Cases >>)
VARIABLE d
Init == d = 0
Next == UNCHANGED d
=============================================================================
