-------------------------- MODULE Trace_FrameImpl ---------------------------
(***************************************************************************)
(* Code ~ Impl for the reader: the Read calls recorded from real Decode /  *)
(* DecodeChained / CheckIntegrity calls are replayed through FrameImpl.  Every logged call  *)
(* <<req, n, e>> must be exactly the request FrameImpl makes in its        *)
(* current state (the environment's answer is the logged one); the         *)
(* parser's consumption (Take) is a silent step.  A disagreement is model  *)
(* drift - FrameImpl no longer transcribes the code - not a property       *)
(* violation; it is reported so that the exhaustive results of             *)
(* MC_FrameImpl are only relied on while they describe the code.           *)
(* trace.ndjson: [id, files (<<[h, units]>>), avail, fault, reads, err]    *)
(***************************************************************************)
EXTENDS Integers, Sequences, FiniteSets, TLC, Json

Traces == ndJsonDeserialize("trace.ndjson")

VARIABLES ti, l, fset, Avail, Fault, pc, k, fetched, want, ui, n, buf, ended, files, result, lastreq
tvars == << ti, l, fset, Avail, Fault, pc, k, fetched, want, ui, n, buf, ended, files, result, lastreq >>

FileSets == [i \in 1..Len(Traces) |-> Traces[i].files]
BufSize == 4096
CopyBuf == 32768
DataWithErr == TRUE
PreFixChainRule == FALSE

F == INSTANCE FrameImpl

ASSUME TLCSet(1, 0) /\ TLCSet(2, << >>)
Note(rec) == TLCSet(2, Append(TLCGet(2), rec))

Reads == Traces[ti].reads

Start(i) == /\ fset' = i /\ Avail' = Traces[i].avail /\ Fault' = (Traces[i].fault = 1)
            /\ pc' = "size" /\ k' = 1 /\ fetched' = 0 /\ want' = 1 /\ ui' = 1 /\ n' = 0 /\ buf' = 0
            /\ ended' = FALSE /\ files' = 0 /\ result' = "run" /\ lastreq' = << 0, 0 >>

TInit == /\ ti = 1 /\ l = 1
         /\ fset = 1 /\ Avail = Traces[1].avail /\ Fault = (Traces[1].fault = 1)
         /\ pc = "size" /\ k = 1 /\ fetched = 0 /\ want = 1 /\ ui = 1 /\ n = 0 /\ buf = 0
         /\ ended = FALSE /\ files = 0 /\ result = "run" /\ lastreq = << 0, 0 >>

Silent == F!Take /\ UNCHANGED << ti, l, fset, Avail, Fault >>

\* the read action of the model in its current state, answered as logged
Ans == [got |-> Reads[l][2], end |-> Reads[l][3] # 0]
Logged == /\ l <= Len(Reads)
          /\ (F!ReadSizeA(Ans) \/ F!ReadHdrA(Ans) \/ (pc = "unit" /\ n # F!Limit /\ F!FillA(Ans)) \/ F!CopyA(Ans) \/ F!ReadCRCA(Ans) \/ F!ProbeA(Ans))
          /\ lastreq'[2] = Reads[l][1]
          /\ l' = l + 1
          /\ UNCHANGED << ti, fset, Avail, Fault >>

\* the "data beyond data size" failure makes no Read call
SilentFail == /\ pc = "unit" /\ buf = 0 /\ n = F!Limit /\ F!FillA([got |-> 0, end |-> TRUE]) /\ UNCHANGED << ti, l, fset, Avail, Fault >>

NextTrace ==
    /\ ~ENABLED Silent /\ ~ENABLED Logged /\ ~ENABLED SilentFail
    /\ IF l = Len(Reads) + 1 /\ (pc = "done" => (result = "err") = (Traces[ti].err = 1))
       THEN TRUE
       ELSE Note([trace |-> Traces[ti].id, read |-> l, pc |-> pc, what |-> "the recorded Read sequence is not a behaviour of FrameImpl",
                  next |-> IF l <= Len(Reads) THEN Reads[l] ELSE << >>, fetched |-> fetched, n |-> n, buffered |-> buf])
    /\ TLCSet(1, TLCGet(1) + 1)
    /\ ti' = ti + 1 /\ l' = 1
    /\ IF ti + 1 <= Len(Traces) THEN Start(ti + 1)
       ELSE UNCHANGED << fset, Avail, Fault, pc, k, fetched, want, ui, n, buf, ended, files, result, lastreq >>

TNext == ti <= Len(Traces) /\ (Silent \/ Logged \/ SilentFail \/ NextTrace)
TSpec == TInit /\ [][TNext]_tvars

Post == /\ ndJsonSerialize("mismatch.ndjson", TLCGet(2))
        /\ PrintT(<< "TRACES", TLCGet(1), Len(Traces), "MISMATCHES", Len(TLCGet(2)) >>)
        /\ TLCGet(1) = Len(Traces)
        /\ TLCGet(2) = << >>
=============================================================================
