------------------------------- MODULE FitGen -------------------------------
(***************************************************************************)
(* C19: fitgen on product-profile selections.                              *)
(*                                                                         *)
(* A workbook is, per message, a sequence of field rows                    *)
(*   [n (field number), name, b (base type index), a (array), k (kind),    *)
(*    on (EXAMPLE cell neither empty nor "0")].                            *)
(* Contract (what the generated code must contain for a selection):        *)
(*   - per message, one struct field per enabled row, in row order, and    *)
(*     nothing for disabled rows;                                          *)
(*   - per enabled row exactly one lookup entry with that row's number,    *)
(*     base type, array flag and kind, whose struct index is the rank of   *)
(*     the row among the enabled rows of its message; no other entries.    *)
(* Impl (the generator as a row-by-row state machine, transform.go /       *)
(* codegen.go): skip a row whose EXAMPLE cell is empty or "0", else append *)
(* a struct field and an entry with sindex = number of fields so far.      *)
(***************************************************************************)
EXTENDS Naturals, Sequences, FiniteSets

\* Impl: generator run over the rows of one message
RECURSIVE GenFrom(_, _, _)
GenFrom(rows, i, acc) ==
    IF i > Len(rows) THEN acc
    ELSE IF ~rows[i].on THEN GenFrom(rows, i + 1, acc)
    ELSE GenFrom(rows, i + 1,
                 [struct |-> Append(acc.struct, rows[i].name),
                  entries |-> Append(acc.entries, [n |-> rows[i].n, s |-> Len(acc.struct), b |-> rows[i].b, a |-> rows[i].a, k |-> rows[i].k])])
Gen(rows) == GenFrom(rows, 1, [struct |-> << >>, entries |-> << >>])

\* Contract: relation between the rows of a message and an observed output
Enabled(rows) == { i \in DOMAIN rows : rows[i].on }
Rank(rows, i) == Cardinality({ j \in Enabled(rows) : j < i })

Relation(rows, out) ==
    /\ Len(out.struct) = Cardinality(Enabled(rows))
    /\ \A i \in Enabled(rows) :
         /\ out.struct[Rank(rows, i) + 1] = rows[i].name
         /\ Cardinality({ e \in DOMAIN out.entries : out.entries[e].n = rows[i].n }) = 1
         /\ \E e \in DOMAIN out.entries :
              out.entries[e] = [n |-> rows[i].n, s |-> Rank(rows, i), b |-> rows[i].b, a |-> rows[i].a, k |-> rows[i].k]
    /\ Len(out.entries) = Cardinality(Enabled(rows))
    /\ \A i \in DOMAIN rows \ Enabled(rows) :
         /\ \A e \in DOMAIN out.entries : out.entries[e].n # rows[i].n \/ \E j \in Enabled(rows) : rows[j].n = rows[i].n
         /\ \A p \in DOMAIN out.struct : out.struct[p] # rows[i].name \/ \E j \in Enabled(rows) : rows[j].name = rows[i].name
---------------------------------------------------------------------------
(* Types sheet: every value row of every type yields exactly one constant  *)
(* <Type><Value> = value of that Go type; the only other constant of the   *)
(* type is <Type>Invalid = the base type's invalid value.  Names are       *)
(* compared after normalisation (lower case, no underscores), values as    *)
(* decimal strings.                                                        *)
InvalidDec(b) == CASE b \in {0, 2, 13} -> "255" [] b = 1 -> "127" [] b = 3 -> "32767" [] b = 4 -> "65535"
                   [] b = 5 -> "2147483647" [] b = 6 -> "4294967295" [] b \in {10, 11, 12, 16} -> "0"
                   [] b = 14 -> "9223372036854775807" [] b \in {9, 15} -> "18446744073709551615" [] b = 8 -> "4294967295"
                   [] OTHER -> "?"
GoBits(b) == CASE b \in {0, 1, 2, 10, 13} -> 8 [] b \in {3, 4, 11} -> 16 [] b \in {5, 6, 12, 8} -> 32 [] OTHER -> 64

\* t: [name, b, vals: << <<vname, value>> >>]; obs: [bits, consts: << <<name, value>> >>]
TypeRelation(t, obs) ==
    LET want == { << t.name \o t.vals[i][1], t.vals[i][2] >> : i \in DOMAIN t.vals } \cup { << t.name \o "invalid", InvalidDec(t.b) >> }
        got  == { << obs.consts[i][1], obs.consts[i][2] >> : i \in DOMAIN obs.consts }
    IN  /\ obs.bits = GoBits(t.b)
        /\ want \subseteq got
        /\ \A g \in got : g \in want \/ (\E w \in want : w[1] = g[1])   \* no constant the sheet does not list
=============================================================================
