------------------------------- MODULE FitGen -------------------------------
(***************************************************************************)
(* C19: fitgen on product-profile selections.                              *)
(*                                                                         *)
(* A workbook is, per message, a sequence of field rows                    *)
(*   [n (field number), name, b (base type index), a (array), k (kind),    *)
(*    on (EXAMPLE cell neither empty nor "0")].                            *)
(* Contract (what the generated code must contain for a selection):        *)
(*   - per message, one struct field per enabled row, in row order, and    *)
(*     nothing for disabled rows;                                          *)
(*   - per enabled row exactly one lookup entry with that row's number,    *)
(*     base type, array flag and kind, whose struct index is the rank of   *)
(*     the row among the enabled rows of its message; no other entries.    *)
(* Impl (the generator as a row-by-row state machine, transform.go /       *)
(* codegen.go): skip a row whose EXAMPLE cell is empty or "0", else append *)
(* a struct field and an entry with sindex = number of fields so far.      *)
(***************************************************************************)
EXTENDS Naturals, Sequences, FiniteSets

\* Impl: generator run over the rows of one message
RECURSIVE GenFrom(_, _, _)
GenFrom(rows, i, acc) ==
    IF i > Len(rows) THEN acc
    ELSE IF ~rows[i].on THEN GenFrom(rows, i + 1, acc)
    ELSE GenFrom(rows, i + 1,
                 [struct |-> Append(acc.struct, rows[i].name),
                  entries |-> Append(acc.entries, [n |-> rows[i].n, s |-> Len(acc.struct), b |-> rows[i].b, a |-> rows[i].a, k |-> rows[i].k])])
Gen(rows) == GenFrom(rows, 1, [struct |-> << >>, entries |-> << >>])

\* Contract: relation between the rows of a message and an observed output
Enabled(rows) == { i \in DOMAIN rows : rows[i].on }
Rank(rows, i) == Cardinality({ j \in Enabled(rows) : j < i })

Relation(rows, out) ==
    /\ Len(out.struct) = Cardinality(Enabled(rows))
    /\ \A i \in Enabled(rows) :
         /\ out.struct[Rank(rows, i) + 1] = rows[i].name
         /\ Cardinality({ e \in DOMAIN out.entries : out.entries[e].n = rows[i].n }) = 1
         /\ \E e \in DOMAIN out.entries :
              out.entries[e] = [n |-> rows[i].n, s |-> Rank(rows, i), b |-> rows[i].b, a |-> rows[i].a, k |-> rows[i].k]
    /\ Len(out.entries) = Cardinality(Enabled(rows))
    /\ \A i \in DOMAIN rows \ Enabled(rows) :
         /\ \A e \in DOMAIN out.entries : out.entries[e].n # rows[i].n \/ \E j \in Enabled(rows) : rows[j].n = rows[i].n
         /\ \A p \in DOMAIN out.struct : out.struct[p] # rows[i].name \/ \E j \in Enabled(rows) : rows[j].name = rows[i].name
=============================================================================
