----------------------------- MODULE MC_Records ------------------------------
(***************************************************************************)
(* Exhaustive exploration of the record layer over a small alphabet        *)
(* (C13, C03, C12): every sequence of up to MaxDepth records drawn from    *)
(* definitions (two local types, both byte orders, three known messages    *)
(* and an unknown one), data records in two value variants and compressed- *)
(* timestamp records, appended to a fixed activity-file prefix.            *)
(*                                                                         *)
(* Two uses:                                                               *)
(*  1. Properties of the Contract itself (FitRef is the oracle of most     *)
(*     checks, so it is checked against independent restatements):         *)
(*       UndefinedIsError  - rejected iff some data record addresses a     *)
(*                           local type without earlier definition         *)
(*       LatestWins        - the i-th produced message is the decode of    *)
(*                           the i-th data record under the latest         *)
(*                           definition of its local type, with the        *)
(*                           timestamp state an independent fold computes  *)
(*       SlotIndependence  - follows: the expected message of a record     *)
(*                           mentions only its own slot's definition       *)
(*       OrderKept         - list slots hold their messages in stream      *)
(*                           order                                         *)
(*  2. Scripts: every explored sequence is printed; the harness builds the *)
(*     same bytes from the exported alphabet, runs the real decoder and    *)
(*     validates the result with Trace_Decode (Code [= Contract on all     *)
(*     interleavings up to the depth).                                     *)
(***************************************************************************)
EXTENDS FitRef

CONSTANTS MaxDepth, Emit

Defs == << [l |-> 0, arch |-> 0, m |-> 20, flds |-> << <<253, 4, 134>>, <<3, 1, 2>> >>],      \* record: timestamp, heart_rate
           [l |-> 0, arch |-> 1, m |-> 20, flds |-> << <<3, 1, 2>>, <<6, 2, 132>> >>],        \* record, big-endian: heart_rate, speed
           [l |-> 1, arch |-> 0, m |-> 21, flds |-> << <<0, 1, 0>>, <<3, 4, 134>> >>],        \* event: event, data
           [l |-> 1, arch |-> 1, m |-> 65280, flds |-> << <<1, 2, 132>> >>],                 \* unknown message
           [l |-> 0, arch |-> 1, m |-> 19, flds |-> << <<254, 2, 132>>, <<253, 4, 134>> >>],  \* lap on local type 0: message_index, timestamp
           [l |-> 0, arch |-> 1, m |-> 20, flds |-> << <<253, 4, 134>>, <<3, 1, 2>> >> ] >>     \* the first definition again, other byte order only

Tokens == { [k |-> "def", d |-> i] : i \in DOMAIN Defs }
          \cup { [k |-> "data", l |-> l, v |-> v] : l \in {0, 1}, v \in {1, 2} }
          \cup { [k |-> "comp", l |-> l, off |-> o, v |-> 1] : l \in {0, 1}, o \in {3, 30} }

U32LE(n) == << n % 256, (n \div 256) % 256, (n \div 65536) % 256, n \div 16777216 >>
Wire(le, arch) == IF arch = 0 THEN le ELSE Rev(le)
TimeOf(v) == 805306368 + 40 * v                     \* 0x30000000 + 40 v

DefBytes(d) ==
    << 64 + d.l, 0, d.arch >> \o Wire(<< d.m % 256, d.m \div 256 >>, d.arch) \o << Len(d.flds) >>
    \o FoldLeft(LAMBDA acc, f : acc \o f, << >>, d.flds)

Payload(d, v) ==
    FoldLeft(LAMBDA acc, i :
               acc \o (IF d.flds[i][1] = 253 THEN Wire(U32LE(TimeOf(v)), d.arch)
                       ELSE [j \in 1..d.flds[i][2] |-> (16 * v + i + j) % 256]),
             << >>, [i \in 1..Len(d.flds) |-> i])

\* definition in force for local type l after the tokens hist[1..j-1] (0 = none)
RECURSIVE DefBefore(_, _, _)
DefBefore(hist, j, l) ==
    IF j <= 1 THEN 0
    ELSE LET t == hist[j - 1] IN
         IF t.k = "def" /\ Defs[t.d].l = l THEN t.d ELSE DefBefore(hist, j - 1, l)

TokBytes(hist, j) ==
    LET t == hist[j] IN
    IF t.k = "def" THEN DefBytes(Defs[t.d])
    ELSE LET di == DefBefore(hist, j, t.l)
             pl == IF di = 0 THEN << 1, 2 >> ELSE Payload(Defs[di], t.v)
         IN  (IF t.k = "data" THEN << t.l >> ELSE << 128 + 32 * t.l + t.off >>) \o pl

\* fixed prefix: file_id definition (local 5) and data, file type 4 (activity)
Prefix == << 69, 0, 0, 0, 0, 1, 0, 1, 0 >> \o << 5, 4 >>

Body(hist) == Prefix \o FoldLeft(LAMBDA acc, j : acc \o TokBytes(hist, j), << >>, [j \in 1..Len(hist) |-> j])
File(hist) ==
    LET b == Body(hist)
        h == << 12, 16, 67, 8, Len(b) % 256, Len(b) \div 256, 0, 0, 46, 70, 73, 84 >>
        x == h \o b
    IN  x \o LE16(Crc(x))

\* the Contract's run over a whole input: final state and the produced messages
RECURSIVE RunFrom(_, _, _)
RunFrom(in, dec, outs) ==
    IF dec.verdict # "run" THEN [dec |-> dec, outs |-> outs]
    ELSE LET r == Step(in, Len(in), dec) IN
         RunFrom(in, r.dec, IF r.out.kind \in {"msg", "single"} THEN Append(outs, r.out) ELSE outs)
Run(in) == RunFrom(in, InitDec(0, "full", FALSE), << >>)

---------------------------------------------------------------------------
(* Independent restatements at the token level *)

\* first data token addressing an undefined local type (0 = none)
FirstUndefined(hist) ==
    LET bad == { j \in DOMAIN hist : hist[j].k # "def" /\ DefBefore(hist, j, hist[j].l) = 0 } IN
    IF bad = {} THEN 0 ELSE CHOOSE j \in bad : \A i \in bad : j <= i

\* timestamp reference before token j, by the FIT rule stated directly:
\* explicit field 253 of a known message re-bases; a compressed header moves
\* to the least t >= reference with t = offset (mod 32)
RECURSIVE TsBefore(_, _)
TsBefore(hist, j) ==
    IF j <= 1 THEN -1
    ELSE LET t == hist[j - 1]  prev == TsBefore(hist, j - 1)  di == IF t.k = "def" THEN 0 ELSE DefBefore(hist, j - 1, t.l) IN
         IF t.k = "def" \/ di = 0 THEN prev
         ELSE LET d == Defs[di]
                  has253 == \E i \in DOMAIN d.flds : d.flds[i][1] = 253
                  afterHdr == IF t.k = "comp" /\ prev >= 0 THEN prev + (((t.off - (prev % 32)) + 32) % 32) ELSE prev
              IN  IF has253 /\ d.m \in {19, 20, 21} THEN TimeOf(t.v) ELSE afterHdr

\* messages the data tokens of held known messages must produce: message
\* number, slot and (for messages with a timestamp) the timestamp value
Held == {19, 20, 21}
SlotName(m) == IF m = 19 THEN "Laps" ELSE IF m = 20 THEN "Records" ELSE "Events"
ExpectedOuts(hist) ==
    LET upto == IF FirstUndefined(hist) = 0 THEN Len(hist) ELSE FirstUndefined(hist) - 1
        js == { j \in 1..upto : hist[j].k # "def" /\ Defs[DefBefore(hist, j, hist[j].l)].m \in Held }
    IN  [ i \in 1..Cardinality(js) |->
            LET j == CHOOSE x \in js : Cardinality({ y \in js : y < x }) = i - 1
                t == hist[j]  d == Defs[DefBefore(hist, j, t.l)]
                has253 == \E q \in DOMAIN d.flds : d.flds[q][1] = 253
                ref == TsBefore(hist, j)
                ts == IF has253 THEN TimeOf(t.v)
                      ELSE IF t.k = "comp" /\ ref >= 0 THEN ref + (((t.off - (ref % 32)) + 32) % 32)
                      ELSE -1
            IN  [m |-> d.m, slot |-> SlotName(d.m), ts |-> ts, tok |-> j] ]

\* observed timestamp of a produced message (-1 when the field is absent)
TsOf(o) == LET s == PF(o.m, 253).s IN
           IF s \in DOMAIN o.msg THEN ToInt(SubSeq(o.msg[s], 1, 4)) ELSE IF s \in o.skip THEN -2 ELSE -1

VARIABLE hist
Init == hist = << >>
Next == /\ Len(hist) < MaxDepth
        /\ \E t \in Tokens : hist' = Append(hist, t)
Spec == Init /\ [][Next]_hist

R == Run(File(hist))

UndefinedIsError ==
    IF FirstUndefined(hist) # 0 THEN R.dec.verdict = "reject" /\ R.dec.why = "no definition for local type"
    ELSE R.dec.verdict = "accept"

LatestWins ==
    LET e == ExpectedOuts(hist) IN
    /\ Len(R.outs) = Len(e)
    /\ \A i \in DOMAIN e :
         /\ R.outs[i].m = e[i].m /\ R.outs[i].slot = e[i].slot
         /\ (TsOf(R.outs[i]) = e[i].ts \/ (TsOf(R.outs[i]) = -2 /\ e[i].ts = -1))

OrderKept ==
    \A s \in {"Laps", "Records", "Events"} :
      LET mine == SelectSeq(R.outs, LAMBDA o : o.slot = s) IN
      \A i \in DOMAIN mine : mine[i].kind = "msg" => mine[i].idx = i

\* every explored sequence, for replay into the real decoder
EmitScript == Emit => PrintT("SCRIPT " \o ToString([j \in DOMAIN hist |-> TokBytes(hist, j)]))
=============================================================================
