CONSTANTS
  States <- Q_States
  ByteSet <- Q_Bytes
  LinStates <- Q_Lin
  MsgLen = 4
  Alphabet <- Q_Alpha
  BurstAligns <- Q_Aligns
  OutFile = "crc_out.json"
INIT Init
NEXT Next
