-------------------------- MODULE Trace_CrcStream --------------------------
(***************************************************************************)
(* Validates operation logs recorded from the real dyncrc16 package        *)
(* against CrcStream.  One trace = one hash object's life; ops:            *)
(*   [op |-> "write", data |-> bytes, n |-> returned count]                *)
(*   [op |-> "copy", data |-> bytes, n |-> count]  (io.Copy into the hash)  *)
(*   [op |-> "sum16", v |-> observed]                                      *)
(*   [op |-> "sum", prefix |-> bytes, v |-> observed bytes]                *)
(*   [op |-> "reset"]                                                      *)
(*   [op |-> "checksum", data |-> bytes, v |-> observed]  (package func)   *)
(* Every disagreement is appended to register 2 and validation continues.  *)
(***************************************************************************)
EXTENDS CrcStream, TLC, Json

Traces == ndJsonDeserialize("trace.ndjson")

VARIABLES t, k
tvars == << reg, fed, t, k >>

ASSUME TLCSet(1, 0) /\ TLCSet(2, << >>)

Note(rec) == TLCSet(2, Append(TLCGet(2), rec))
Expect(cond, rec) == IF cond THEN TRUE ELSE Note(rec)

TInit == SInit /\ t = 1 /\ k = 1

Ops == Traces[t].ops

NextTrace == /\ k > Len(Ops)
             /\ TLCSet(1, TLCGet(1) + 1)
             /\ t' = t + 1 /\ k' = 1 /\ Reset

Consume ==
    /\ k <= Len(Ops)
    /\ k' = k + 1 /\ t' = t
    /\ LET o == Ops[k]
           where == [trace |-> Traces[t].id, op |-> k]
       IN CASE o.op = "write" ->
                 /\ Write(o.data)
                 /\ Expect(o.n = Len(o.data), where @@ [what |-> "write count", observed |-> o.n])
            [] o.op = "copy" ->        \* io.Copy / io.CopyN from a reader into the hash: a write of the same bytes
                 /\ Write(o.data)
                 /\ Expect(o.n = Len(o.data), where @@ [what |-> "bytes copied", observed |-> o.n])
            [] o.op = "sum16" ->
                 /\ UNCHANGED svars
                 /\ Expect(o.v = Sum16, where @@ [what |-> "sum16", expected |-> Sum16, observed |-> o.v])
            [] o.op = "sum" ->
                 /\ UNCHANGED svars
                 /\ Expect(o.v = SumBE(o.prefix), where @@ [what |-> "sum", expected |-> SumBE(o.prefix), observed |-> o.v])
            [] o.op = "reset" -> Reset
            [] o.op = "checksum" ->
                 /\ UNCHANGED svars
                 /\ Expect(o.v = CrcFold(0, o.data), where @@ [what |-> "checksum", expected |-> CrcFold(0, o.data), observed |-> o.v])
            [] o.op = "residue" ->   \* observed: checksum of data ++ LE(sum)
                 /\ UNCHANGED svars
                 /\ Expect(o.v = 0 /\ CrcFold(0, o.data \o LE16(CrcFold(0, o.data))) = 0, where @@ [what |-> "residue", observed |-> o.v])

TNext == t <= Len(Traces) /\ (NextTrace \/ Consume)

TSpec == TInit /\ [][TNext]_tvars

Post == /\ ndJsonSerialize("mismatch.ndjson", TLCGet(2))
        /\ PrintT(<< "TRACES", TLCGet(1), Len(Traces), "MISMATCHES", Len(TLCGet(2)) >>)
        /\ TLCGet(1) = Len(Traces)
        /\ TLCGet(2) = << >>
=============================================================================
