---------------------------- MODULE MC_HeaderImpl ----------------------------
(* Exhaustive evaluation of HeaderImpl's theorems over its header domain.   *)
(* ExpectAgree = TRUE for the code as it is; with PreFixMethodNoFeed = TRUE *)
(* the method accepts every non-zero CRC and Agree / MethodSound must fail  *)
(* (non-vacuity: the run is made with ExpectAgree = FALSE).                 *)
EXTENDS HeaderImpl
CONSTANT ExpectAgree
ASSUME PrintT(<< "HEADERS", NHeaders >>)
ASSUME DecodeSound
ASSUME DecodeReturns
ASSUME MarshalRoundTrip
ASSUME RegisterAfter
ASSUME MethodSound = ExpectAgree
ASSUME Agree = ExpectAgree
VARIABLE d
Init == d = 0
Next == UNCHANGED d
=============================================================================
