---------------------------- MODULE MC_CrcStream ---------------------------
EXTENDS CrcStream, TLC
CONSTANTS Alphabet, MaxFed, MaxChunk

RECURSIVE Chunks(_)
Chunks(n) == IF n = 0 THEN {<<>>} ELSE LET S == Chunks(n - 1) IN S \cup {Append(m, a) : m \in {x \in S : Len(x) = n - 1}, a \in Alphabet}

Next == \/ \E c \in Chunks(MaxChunk) : Len(fed) + Len(c) <= MaxFed /\ Write(c)
        \/ Reset
Spec == SInit /\ [][Next]_svars

\* appending the sum little-endian gives residue 0 (what checkCRC relies on)
ResidueInvariant == CrcFrom(reg, LE16(reg), 1) = 0
\* Reset really returns to the initial state
ResetProp == [][Reset => (reg' = 0 /\ fed' = <<>>)]_svars
Q_Alpha == {0, 1, 128, 255}
=============================================================================
