---------------------------- MODULE AccumulateInt ----------------------------
(***************************************************************************)
(* C18, unbounded in the number of records: accumu.go's update             *)
(*     acc += (value - last) mod M;  last = value                          *)
(* against the Contract "the destination is the least value >= the         *)
(* previous one congruent to the slice (mod M)", for the three widths the  *)
(* profile uses (M = 256, 4096, 65536), over the integers (the 2^32 wrap   *)
(* of the sum is outside: 2^32 / 65535 > 65 000 rollovers of the widest    *)
(* source).  IndInv is inductive (Apalache, all integers) and implies that *)
(* Impl and Contract agree after any number of records; StepIsLeast is the *)
(* rule itself as an action invariant.  ComponentsImpl / MC_Components     *)
(* check the same on explicit sequences and bind it to the code.           *)
(***************************************************************************)
EXTENDS Integers

VARIABLES
    \* @type: Int;
    m,      \* the modulus of the accumulator (fixed during a behaviour)
    \* @type: Int;
    acc,    \* Impl: accumuValue
    \* @type: Int;
    last,   \* Impl: lastValue
    \* @type: Int;
    dest    \* Contract: previous destination value

Init == m \in {256, 4096, 65536} /\ acc = 0 /\ last = 0 /\ dest = 0

Least(prev, raw, M) == LET b == prev - (prev % M) + raw IN IF b >= prev THEN b ELSE b + M

Rec(v) == /\ v \in 0..(m - 1)
          /\ acc' = acc + ((v - last) % m)
          /\ last' = v
          /\ dest' = Least(dest, v, m)
          /\ m' = m

Next == \E v \in 0..65535 : Rec(v)

\* the recorded deviation KF_AccumulatorMaskZero (mask 0: the sum never moves),
\* as a transition relation of its own: Apalache must refute IndInv for it
RecMaskZero(v) == /\ v \in 0..(m - 1)
                  /\ acc' = acc
                  /\ last' = v
                  /\ dest' = Least(dest, v, m)
                  /\ m' = m
NextMaskZero == \E v \in 0..65535 : RecMaskZero(v)

IndInv == /\ m \in {256, 4096, 65536}
          /\ acc >= 0 /\ dest = acc
          /\ last \in 0..(m - 1)
          /\ last = acc % m

IndInit == /\ m \in {256, 4096, 65536}
           /\ acc \in Nat /\ dest = acc
           /\ last \in 0..(m - 1)
           /\ last = acc % m

StepIsLeast == (\E v \in 0..65535 : Rec(v)) => (acc' >= acc /\ acc' < acc + m /\ acc' % m = last' /\ dest' = acc')
=============================================================================
