----------------------------- MODULE StringImpl ------------------------------
(***************************************************************************)
(* writer.go:encodeString (Impl) against the Contract of a FIT string      *)
(* field of fixed size (C06 "strings that fit", C07 "strings ... up to the *)
(* fixed lengths the profile gives them", C05 "field sizes"):              *)
(*   - exactly `size` bytes are written, NUL-terminated and NUL-padded;    *)
(*   - what a reader gets back (the bytes up to the first NUL) is the      *)
(*     longest prefix of the string, in whole characters, that fits in     *)
(*     size - 1 bytes;                                                     *)
(*   - a valid UTF-8 string is never refused.                              *)
(* Strings are sequences of characters, a character is the tuple of its    *)
(* UTF-8 bytes (1 to 4); the Impl works on the flattened bytes, as the     *)
(* code does.                                                              *)
(* Cut selects the truncation loop: "for" (the code), "if" (steps back at  *)
(* most once), "none" (the code before 196e18a: cuts mid-character and     *)
(* then refuses its own output).                                           *)
(***************************************************************************)
EXTENDS Integers, Sequences, FiniteSets, TLC

CONSTANT Cut

Chars == { << 97 >>, << 195, 169 >>, << 226, 130, 172 >>, << 240, 159, 152, 128 >> }   \* a, e-acute, euro sign, an emoji

RECURSIVE Flat(_)
Flat(s) == IF s = << >> THEN << >> ELSE Head(s) \o Flat(Tail(s))

RuneStart(b) == b < 128 \/ b >= 192            \* utf8.RuneStart: not a continuation byte (10xxxxxx)

\* utf8.Valid on bytes built from Chars and NULs: every lead byte is followed
\* by exactly its continuation bytes
RECURSIVE ValidFrom(_, _)
ValidFrom(b, i) ==
    IF i > Len(b) THEN TRUE
    ELSE LET c == b[i]
             n == IF c < 128 THEN 1 ELSE IF c >= 240 THEN 4 ELSE IF c >= 224 THEN 3 ELSE IF c >= 192 THEN 2 ELSE 0
         IN  /\ n > 0
             /\ i + n - 1 <= Len(b)
             /\ \A j \in (i + 1)..(i + n - 1) : b[j] >= 128 /\ b[j] < 192
             /\ ValidFrom(b, i + n)

RECURSIVE BackOff(_, _)
BackOff(str, length) == IF length > 0 /\ ~RuneStart(str[length + 1]) THEN BackOff(str, length - 1) ELSE length

\* encodeString(str, size): [err, out]
EncodeStringImpl(str, size) ==
    LET l0 == Len(str)
        l1 == IF l0 > size - 1
              THEN LET c == size - 1 IN
                   CASE Cut = "for"  -> BackOff(str, c)
                     [] Cut = "if"   -> IF c > 0 /\ ~RuneStart(str[c + 1]) THEN c - 1 ELSE c
                     [] Cut = "none" -> c
              ELSE l0
        out == [ i \in 1..size |-> IF i <= l1 THEN str[i] ELSE 0 ]
    IN  IF ~ValidFrom(out, 1) THEN [err |-> TRUE, out |-> << >>] ELSE [err |-> FALSE, out |-> out]

---------------------------------------------------------------------------
(* Contract *)

\* the longest prefix of whole characters that fits in n bytes
RECURSIVE FitPrefix(_, _)
FitPrefix(s, n) == IF s = << >> \/ Len(Head(s)) > n THEN << >> ELSE << Head(s) >> \o FitPrefix(Tail(s), n - Len(Head(s)))

UpToNul(b) == LET z == { i \in DOMAIN b : b[i] = 0 } IN
              IF z = {} THEN b ELSE SubSeq(b, 1, (CHOOSE i \in z : \A j \in z : i <= j) - 1)

StringContract(s, size) ==
    LET r == EncodeStringImpl(Flat(s), size) IN
    /\ ~r.err
    /\ Len(r.out) = size
    /\ r.out[size] = 0                                    \* always terminated
    /\ UpToNul(r.out) = Flat(FitPrefix(s, size - 1))

---------------------------------------------------------------------------
RECURSIVE StringsUpTo(_)
StringsUpTo(n) == IF n = 0 THEN { << >> } ELSE LET S == StringsUpTo(n - 1) IN S \cup { Append(s, c) : s \in { x \in S : Len(x) = n - 1 }, c \in Chars }

Cases(maxChars, maxSize) == { << s, z >> : s \in StringsUpTo(maxChars), z \in 1..maxSize }
AllMeet(maxChars, maxSize) == \A c \in Cases(maxChars, maxSize) : StringContract(c[1], c[2])
Failing(maxChars, maxSize) == { c \in Cases(maxChars, maxSize) : ~StringContract(c[1], c[2]) }
=============================================================================
