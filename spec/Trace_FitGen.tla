---------------------------- MODULE Trace_FitGen ----------------------------
(* Validates observed fitgen runs: trace.ndjson, one run per line:         *)
(*   [id, workbook, input ("xlsx" | "zip"), sdk, exit1, exit2, identical,  *)
(*    versionline, major, minor, wantmajor, wantminor, compiles,           *)
(*    msgs: << [name, rows: << row >>, struct: << names >>,                *)
(*              entries: << [n, s, b, a, k] >>] >> ]                       *)
EXTENDS FitGen, TLC, Json

Runs == ndJsonDeserialize("trace.ndjson")
ASSUME TLCSet(1, 0) /\ TLCSet(2, << >>)
Note(rec) == TLCSet(2, Append(TLCGet(2), rec))
Must(cond, rec) == IF cond THEN TRUE ELSE Note(rec)

Rows(m) == [i \in DOMAIN m.rows |-> [n |-> m.rows[i].n, name |-> m.rows[i].name, b |-> m.rows[i].b, a |-> m.rows[i].a, k |-> m.rows[i].k, on |-> m.rows[i].on = 1]]

VARIABLE r
Init == r = 1
Next == /\ r <= Len(Runs)
        /\ LET R == Runs[r]  w == [run |-> R.id, workbook |-> R.workbook, input |-> R.input] IN
           /\ Must(R.exit1 = 0 /\ R.exit2 = 0, w @@ [what |-> "fitgen does not exit successfully", log |-> R.log])
           /\ IF R.exit1 # 0 \/ R.exit2 # 0 THEN TRUE ELSE
              /\ Must(R.identical = 1, w @@ [what |-> "output differs between two runs on the same input", file |-> R.differs])
              /\ Must(R.versionline = 1 /\ R.major = R.wantmajor /\ R.minor = R.wantminor, w @@ [what |-> "generated code does not declare the requested SDK version", observed |-> << R.major, R.minor >>])
              /\ Must(R.compiles = 1, w @@ [what |-> "generated code does not compile with the support code", log |-> R.log])
              /\ \A i \in DOMAIN R.types :
                   Must(R.types[i].found = 1 /\ TypeRelation(R.types[i], R.types[i].obs),
                        w @@ [what |-> "constants of a type do not match its rows in the types sheet", type |-> R.types[i].name])
              /\ \A i \in DOMAIN R.msgs :
                   Must(Relation(Rows(R.msgs[i]), [struct |-> R.msgs[i].struct, entries |-> R.msgs[i].entries]),
                        w @@ [what |-> "struct fields / lookup entries do not match the enabled rows", msg |-> R.msgs[i].name])
        /\ TLCSet(1, TLCGet(1) + 1)
        /\ r' = r + 1
TSpec == Init /\ [][Next]_r

Post == /\ ndJsonSerialize("mismatch.ndjson", TLCGet(2))
        /\ PrintT(<< "TRACES", TLCGet(1), Len(Runs), "MISMATCHES", Len(TLCGet(2)) >>)
        /\ TLCGet(1) = Len(Runs)
        /\ TLCGet(2) = << >>
=============================================================================
