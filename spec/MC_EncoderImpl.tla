--------------------------- MODULE MC_EncoderImpl ---------------------------
EXTENDS EncoderImpl
CONSTANTS ExpectRoundTrip, ExpectDeterministic
ASSUME AllRoundTrip = ExpectRoundTrip
ASSUME AllDeterministic = ExpectDeterministic
ASSUME PrintT(<< "FILES", NFiles >>)
VARIABLE d
Init == d = 0
Next == UNCHANGED d
=============================================================================
