---------------------------- MODULE Trace_String -----------------------------
(* Code ~ Impl for writer.go:encodeString: every recorded call             *)
(*   [str |-> bytes, size |-> n, err |-> 0/1, out |-> bytes]                *)
(* must be what StringImpl!EncodeStringImpl (Cut = "for") computes.         *)
(* A mismatch carries contract = TRUE when the input is valid UTF-8 built   *)
(* from whole characters (chars |-> the character tuples) and the observed  *)
(* result breaks StringContract, i.e. the property and not only the         *)
(* transcription is contradicted.                                           *)
EXTENDS Json, Integers, Sequences, TLC

SI == INSTANCE StringImpl WITH Cut <- "for"

Events == ndJsonDeserialize("trace.ndjson")

ASSUME TLCSet(1, 0) /\ TLCSet(2, << >>)
Note(rec) == TLCSet(2, Append(TLCGet(2), rec))
Must(cond, rec) == IF cond THEN TRUE ELSE Note(rec)

ObsMeets(e) == /\ e.err = 0
               /\ Len(e.out) = e.size
               /\ e.out[e.size] = 0
               /\ SI!UpToNul(e.out) = SI!Flat(SI!FitPrefix(e.chars, e.size - 1))

VARIABLE k
Init == k = 1
Next == /\ k <= Len(Events)
        /\ LET e == Events[k]
               r == SI!EncodeStringImpl(e.str, e.size)
           IN  Must(r.err = (e.err = 1) /\ (r.err \/ r.out = e.out),
                    [event |-> k, what |-> "encodeString", str |-> e.str, size |-> e.size,
                     expected |-> r, observed |-> [err |-> e.err, out |-> e.out],
                     contract |-> e.whole = 1 /\ ~ObsMeets(e)])
        /\ TLCSet(1, TLCGet(1) + 1)
        /\ k' = k + 1
TSpec == Init /\ [][Next]_k

Post == /\ ndJsonSerialize("mismatch.ndjson", TLCGet(2))
        /\ PrintT(<< "TRACES", TLCGet(1), Len(Events), "MISMATCHES", Len(TLCGet(2)) >>)
        /\ TLCGet(1) = Len(Events)
        /\ TLCGet(2) = << >>
=============================================================================
