----------------------------- MODULE MC_Crc16 ------------------------------
(***************************************************************************)
(* Exhaustive, state-free lemmas about the checksum (C14, C04).            *)
(*   StepEquiv   : NibStep = BitStep = TabStep on States x Bytes           *)
(*   Residue     : Crc(m ++ LE16(Crc(m))) = 0                              *)
(*   ZeroKeeps   : a non-zero register stays non-zero under zero bytes     *)
(*   Burst       : every non-zero error pattern of span <= 16 bits, at any *)
(*                 of the 8 bit alignments, leaves a non-zero residue      *)
(* Linearity (Crc(a xor b) = Crc(a) xor Crc(b) for equal lengths) follows  *)
(* from BitStep(s1 ^^ s2, b1 ^^ b2) = BitStep(s1,b1) ^^ BitStep(s2,b2),    *)
(* which is checked as Linear.                                             *)
(***************************************************************************)
EXTENDS Crc16, TLC, Json, FiniteSets

CONSTANTS SliceLo, SliceHi, States, ByteSet, LinStates, MsgLen, Alphabet, BurstAligns, OutFile

StepEquiv == \A s \in States : \A b \in ByteSet :
                 /\ NibStep(s, b) = BitStep(s, b)
                 /\ TabStep(s, b) = BitStep(s, b)

Linear == \A s1 \in LinStates, s2 \in LinStates : \A b1 \in {0, 1, 128, 255}, b2 \in {0, 2, 77, 255} :
              BitStep(s1 ^^ s2, b1 ^^ b2) = BitStep(s1, b1) ^^ BitStep(s2, b2)

RECURSIVE Msgs(_)
Msgs(n) == IF n = 0 THEN {<<>>} ELSE LET S == Msgs(n - 1) IN S \cup {Append(m, a) : m \in {x \in S : Len(x) = n - 1}, a \in Alphabet}

Residue == \A m \in Msgs(MsgLen) : Crc(m \o LE16(Crc(m))) = 0

ZeroKeeps == \A s \in 1..65535 : BitStep(s, 0) # 0

\* A burst of span <= 16 bits starting at bit offset a (0..7) of a byte
\* touches at most 3 bytes: pattern p (1..65535, bit 0 set = first corrupted
\* bit) shifted left by a, as a 24-bit little-endian window.
Window(p, a) == LET v == p * (2 ^ a) IN << v % 256, (v \div 256) % 256, v \div 65536 >>
Burst == \A a \in BurstAligns : \A p \in 1..65535 : Crc(Window(p, a)) # 0

ASSUME StepEquiv
ASSUME Linear
ASSUME Residue
ASSUME ZeroKeeps
ASSUME Burst

Stats == [ step_pairs |-> Cardinality(States) * Cardinality(ByteSet),
           residue_msgs |-> Cardinality(Msgs(MsgLen)),
           burst_windows |-> Cardinality(BurstAligns) * 65535,
           table |-> [x \in 1..256 |-> T[x - 1]] ]

ASSUME JsonSerialize(OutFile, Stats)

Q_States == 0..65535
SliceStates == SliceLo..SliceHi
Q_Aligns0 == {0}
Q_Bytes == {0, 1, 2, 4, 8, 16, 32, 64, 128, 255, 170, 85, 15, 240, 7, 254}
T_Bytes == 0..255
Q_Lin == {0, 1, 255, 256, 32768, 40961, 65535, 4660}
T_Lin == 0..1023
Q_Alpha == {0, 1, 128, 255}
Q_Aligns == {0, 7}
T_Aligns == 0..7

VARIABLE dummy
Init == dummy = 0
Next == UNCHANGED dummy
=============================================================================
