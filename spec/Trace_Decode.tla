---------------------------- MODULE Trace_Decode ----------------------------
(***************************************************************************)
(* Trace validation of recorded calls of the real decoding entry points    *)
(* against the reference semantics FitRef (Code [= Contract).              *)
(*                                                                         *)
(* trace.ndjson: one call per line                                         *)
(*   id, api ("decode" | "chained" | "integrity" | "integrity_hdr" |       *)
(*   "header" | "header_fileid"), opts [uf, um, log], input (bytes),       *)
(*   avail (bytes readable before EOF/fault), fault (1: non-EOF error),    *)
(*   reset (1: process-wide accumulators were reset before the call),      *)
(*   reads (<<req, n, e>> per Read call; may be empty), ret [err,          *)
(*   consumed, files, hdr, fileid, panic]                                  *)
(*                                                                         *)
(* Actions: Unit (one protocol unit of the current file: the named FitRef  *)
(* step + comparison of what it produced with the log), FinishFile (file   *)
(* level comparison; continues a chain or moves to the next call).         *)
(* Disagreements are appended to TLC register 2; validation continues.     *)
(***************************************************************************)
EXTENDS FitRef

Traces == ndJsonDeserialize("trace.ndjson")

VARIABLES ti,      \* index of the call being validated
          fi,      \* index of the file within the call (chains)
          dec,     \* FitRef decoder state
          frames,  \* <<start, end>> offsets of the frames seen in this call
          gacc,    \* Impl deviation: process-wide accumulators (truncated slices)
          lacc,    \* per-file accumulators with the Impl's truncated slices
          g0       \* gacc at the start of the current file
tvars == << ti, fi, dec, frames, gacc, lacc, g0 >>

ASSUME TLCSet(1, 0) /\ TLCSet(2, << >>) /\ TLCSet(3, 0) /\ TLCSet(4, 0) /\ TLCSet(5, << >>)

Note(rec) == TLCSet(2, Append(TLCGet(2), rec))
Count(k) == TLCSet(k, TLCGet(k) + 1)

Call == Traces[ti]
In == Call.input
Avail == Call.avail
Where == [trace |-> Call.id, file |-> fi]

ModeOf(api) == CASE api \in {"decode", "chained", "encode"} -> "full"
                 [] api = "integrity" -> "crc"
                 [] api \in {"integrity_hdr", "header", "header_method"} -> "header"
                 [] api = "header_fileid" -> "fileid"

HasFile == fi <= Len(Call.ret.files)
Obs == Call.ret.files[fi]

ListToFun(lst) == [s \in { lst[i][1] : i \in DOMAIN lst } |-> lst[CHOOSE i \in DOMAIN lst : lst[i][1] = s][2]]

\* Named deviations of the Impl from the Contract (known findings):
\* values the current code is known to produce for the accumulated fields.
ImplD12(raw) == (raw.b1 \div 16) + ((raw.b2 * 16) % 256)

\* Encode: the value on the wire (w) against the value in the File (f).
\* Arrays are padded with invalid elements up to the profile length and cut
\* at it; strings are cut to the profile length - 1 at a character boundary.
PFBySindex(m, s) == LET ns == { n \in DOMAIN FieldTab[m] : FieldTab[m][n].s = s } IN FieldTab[m][CHOOSE n \in ns : TRUE]
RECURSIVE StripInv(_, _, _)
StripInv(v, w, inv) == IF Len(v) >= w /\ SubSeq(v, Len(v) - w + 1, Len(v)) = inv THEN StripInv(SubSeq(v, 1, Len(v) - w), w, inv) ELSE v
EncFieldEq(m, s, w, f) ==
    LET p == PFBySindex(m, s) IN
    IF w[1] = -3 THEN FieldEq(w, f)
    ELSE IF p.k = 1 THEN SubSeq(w, 1, 4) = SubSeq(f, 1, 4)      \* a UTC field carries the instant, whatever location the File's value is held in
    ELSE IF p.k # 0 THEN w = f
    ELSE IF p.b = 7 /\ p.a = 0
         THEN /\ Len(w) <= Len(f) /\ SubSeq(f, 1, Len(w)) = w
              /\ (Len(w) = Len(f) \/ (Len(w) <= p.l - 1 /\ Len(w) >= p.l - 4))
    ELSE IF p.a = 1 /\ p.b # 7
         THEN LET es == SizeOf(p.b)
                  cut == IF Len(f) > es * p.l THEN SubSeq(f, 1, es * p.l) ELSE f
              IN StripInv(w, es, InvalidOf(p.b)) = StripInv(cut, es, InvalidOf(p.b))
    ELSE w = f
\* on the wire but not in the File: only padding of an absent array / an all-invalid array
EncAbsentOk(m, s, w) ==
    LET p == PFBySindex(m, s) IN
    p.k = 0 /\ p.a = 1 /\ p.b # 7 /\ StripInv(w, SizeOf(p.b), InvalidOf(p.b)) = << >>

\* in the File but not on the wire: a string cut down to nothing by a very short field
EncMissingOk(m, s) == LET p == PFBySindex(m, s) IN p.k = 0 /\ p.a = 0 /\ p.b = 7 /\ p.l <= 4

CompareMsg(where, m, spec, skip, obs, raw, ga, la) ==
    LET of == ListToFun(obs.f)
        keys == (DOMAIN spec \cup DOMAIN of) \ skip
        \* a wall-clock-only local time of 0 may be reported as the (absent) base time
        ok(s) == IF s \in DOMAIN spec /\ s \in DOMAIN of
                 THEN (IF dec.enc THEN EncFieldEq(m, s, spec[s], of[s]) ELSE FieldEq(spec[s], of[s]))
                 ELSE IF s \in DOMAIN spec THEN spec[s] = WallOnly(Zero4) \/ (dec.enc /\ EncAbsentOk(m, s, spec[s]))
                 ELSE dec.enc /\ EncMissingOk(m, s)
        bad == { s \in keys : ~ok(s) }
        kf(s) == IF m # 20 \/ s \notin DOMAIN of \/ s \notin DOMAIN spec THEN << >>
                 ELSE IF s = S(20, 5) /\ raw.csd /\ of[s] = ga.dist.a
                      THEN (IF la.dist.a # spec[s] THEN << "KF_ByteShiftTruncation" >> ELSE << >>)
                           \o (IF ga.dist.a # la.dist.a THEN << "KF_SharedAccumulators" >> ELSE << >>)
                 ELSE IF s = S(20, 19) /\ raw.cyc /\ of[s] = Zero4 THEN << "KF_AccumulatorMaskZero.total_cycles" >>
                 ELSE IF s = S(20, 29) /\ raw.pow /\ of[s] = Zero4 THEN << "KF_AccumulatorMaskZero.accumulated_power" >>
                 ELSE << >>
    IN  /\ IF obs.m = m THEN TRUE ELSE Note(where @@ [what |-> "message type", expected |-> m, observed |-> obs.m])
        /\ \A s \in bad :
             Note(where @@ [what |-> "field", m |-> m, s |-> s, kf |-> kf(s),
                            fromcsd |-> (m = 20 /\ "csd" \in DOMAIN raw /\ raw.csd),   \* the record carries compressed_speed_distance: speed / distance are derived
                            expected |-> IF s \in DOMAIN spec THEN spec[s] ELSE Absent,
                            observed |-> IF s \in DOMAIN of THEN of[s] ELSE Absent])

\* does an observed message agree with the expected one in every comparable field?
MsgAgrees(m, spec, skip, obs) ==
    LET of == ListToFun(obs.f)
        keys == (DOMAIN spec \cup DOMAIN of) \ skip
    IN  /\ obs.m = m
        /\ \A s \in keys : IF s \in DOMAIN spec /\ s \in DOMAIN of
                             THEN (IF dec.enc THEN EncFieldEq(m, s, spec[s], of[s]) ELSE FieldEq(spec[s], of[s]))
                             ELSE IF s \in DOMAIN spec THEN spec[s] = WallOnly(Zero4) \/ (dec.enc /\ EncAbsentOk(m, s, spec[s]))
                             ELSE dec.enc /\ EncMissingOk(m, s)

CompareOut(o, ga, la) ==
    CASE o.kind = "msg" ->
           IF ~HasFile THEN TRUE      \* no file returned: file-level comparison reports it
           ELSE IF o.slot \notin DOMAIN Obs.slots \/ o.idx > Len(Obs.slots[o.slot])
           THEN Note(Where @@ [what |-> "missing message", slot |-> o.slot, idx |-> o.idx, m |-> o.m])
           ELSE /\ Count(3)
                /\ CompareMsg(Where @@ [slot |-> o.slot, idx |-> o.idx], o.m, o.msg, o.skip, Obs.slots[o.slot][o.idx], o.raw, ga, la)
                \* the message is there, but at another position of its slot: stream order is not kept
                /\ IF ~MsgAgrees(o.m, o.msg, o.skip, Obs.slots[o.slot][o.idx])
                      /\ \E j \in DOMAIN Obs.slots[o.slot] : j # o.idx /\ MsgAgrees(o.m, o.msg, o.skip, Obs.slots[o.slot][j])
                   THEN Note(Where @@ [what |-> "stream order", slot |-> o.slot, idx |-> o.idx, m |-> o.m,
                                       foundat |-> CHOOSE j \in DOMAIN Obs.slots[o.slot] : j # o.idx /\ MsgAgrees(o.m, o.msg, o.skip, Obs.slots[o.slot][j])])
                   ELSE TRUE
      [] OTHER -> TRUE

TInit == /\ ti = 1 /\ fi = 1
         /\ dec = InitDec(0, ModeOf(Traces[1].api), Traces[1].api = "encode")
         /\ frames = << >>
         /\ gacc = AccsZero /\ lacc = AccsZero /\ g0 = AccsZero

\* Impl accumulators: same accumulate rule, truncated slice, never reset
ImplAccs(acc, raw) ==
    [dist |-> IF raw.csd THEN Accumulate(acc.dist, ImplD12(raw), 12) ELSE acc.dist, cyc |-> acc.cyc, pow |-> acc.pow]

Unit ==
    /\ dec.verdict = "run"
    /\ LET r == Step(In, Avail, dec)
           isRec == r.out.kind \in {"msg", "single"} /\ r.out.m = 20
           ga == IF isRec THEN ImplAccs(gacc, r.out.raw) ELSE gacc
           la == IF isRec THEN ImplAccs(lacc, r.out.raw) ELSE lacc
       IN  /\ dec' = r.dec
           /\ gacc' = ga /\ lacc' = la
           /\ CompareOut(r.out, ga, la)
    /\ UNCHANGED << ti, fi, frames, g0 >>

---------------------------------------------------------------------------
(* File-level comparison *)

Incomplete == FrameLenKnown(dec) /\ FrameEnd(dec) > Avail
CrcBad == /\ FrameLenKnown(dec) /\ ~Incomplete
          /\ IF dec.phase = "end" THEN dec.why = "file crc"
             ELSE CrcRange(dec.crc, In, dec.pos, FrameEnd(dec)) # 0

Final == IF dec.verdict = "either" /\ dec.mode \in {"full", "crc"} /\ dec.hdr.st = "ok" /\ (Incomplete \/ CrcBad)
         THEN "reject" ELSE dec.verdict

HdrEq(h, o) == /\ h.size = o.size /\ h.proto = o.proto /\ h.profile = o.profile
               /\ h.datasize = o.datasize /\ h.datatype = o.datatype /\ h.crc = o.crc

SortedM(f) == LET ks == SetToSortSeq(DOMAIN f, <) IN [i \in DOMAIN ks |-> << ks[i], f[ks[i]] >>]
SortedF(f) == LET ks == SetToSortSeq(DOMAIN f, LAMBDA a, b : a[1] < b[1] \/ (a[1] = b[1] /\ a[2] < b[2]))
              IN [i \in DOMAIN ks |-> << ks[i][1], ks[i][2], f[ks[i]] >>]

IsSortedM(l) == \A i \in 1..(Len(l) - 1) : l[i][1] < l[i + 1][1]
IsSortedF(l) == \A i \in 1..(Len(l) - 1) : l[i][1] < l[i + 1][1] \/ (l[i][1] = l[i + 1][1] /\ l[i][2] < l[i + 1][2])

\* on a failure part-way the counts may include the record in flight
Within(l, f, klen) ==
    /\ \A i \in DOMAIN l : LET k == IF klen = 1 THEN l[i][1] ELSE << l[i][1], l[i][2] >>
                               c == l[i][klen + 1]
                               s == IF k \in DOMAIN f THEN f[k] ELSE 0
                           IN c = s \/ c = s + 1
    /\ \A k \in DOMAIN f : \E i \in DOMAIN l : (IF klen = 1 THEN l[i][1] ELSE << l[i][1], l[i][2] >>) = k

CompareFile(final) ==
    LET o == Obs  w == Where IN
    /\ IF Call.api = "encode" \/ HdrEq(dec.hdr, o.hdr) THEN TRUE ELSE Note(w @@ [what |-> "file header", expected |-> dec.hdr, observed |-> o.hdr])
    /\ IF dec.mode # "full" \/ dec.fileids = 0 THEN TRUE
       ELSE
       \* which file_id is reported when a stream carries several is not pinned;
       \* the type that selected the container (the first one's) is.
       /\ IF dec.fileids = 1 THEN CompareMsg(w @@ [slot |-> "FileId"], 0, dec.fileid, dec.fileidskip, o.fileid, [csd |-> FALSE], gacc, lacc) ELSE TRUE
       /\ IF o.type = dec.ftype THEN TRUE ELSE Note(w @@ [what |-> "file type", expected |-> dec.ftype, observed |-> o.type])
       \* where the walk stopped at an "either" construct nothing further is
       \* compared, even if the frame must be rejected for its checksum
       /\ IF dec.verdict = "either" THEN TRUE
          ELSE
          /\ IF Call.api = "encode" /\ final = "accept" THEN
                 /\ IF Call.post.hdr.datasize = dec.hdr.datasize THEN TRUE ELSE Note(w @@ [what |-> "File.Header.DataSize after Encode", expected |-> dec.hdr.datasize, observed |-> Call.post.hdr.datasize])
                 /\ IF dec.hdr.size = 12 \/ Call.post.hdr.crc = dec.hdr.crc THEN TRUE ELSE Note(w @@ [what |-> "File.Header.CRC after Encode", expected |-> dec.hdr.crc, observed |-> Call.post.hdr.crc])
                 /\ IF Call.post.crc = dec.filecrc THEN TRUE ELSE Note(w @@ [what |-> "File.CRC after Encode", expected |-> dec.filecrc, observed |-> Call.post.crc])
                 /\ IF dec.hdr.size = 12 \/ dec.hdr.crc # 0 THEN TRUE ELSE Note(w @@ [what |-> "header CRC not written"])
             ELSE TRUE
          /\ IF Call.api # "encode" /\ final = "accept" /\ o.crc # dec.filecrc THEN Note(w @@ [what |-> "file crc field", expected |-> dec.filecrc, observed |-> o.crc]) ELSE TRUE
          /\ IF dec.hascreator = (Len(o.creator) = 1) THEN TRUE ELSE Note(w @@ [what |-> "file_creator presence"])
          /\ IF dec.hascreator /\ Len(o.creator) = 1 THEN CompareMsg(w @@ [slot |-> "FileCreator"], MFileCreator, dec.creator, dec.creatorskip, o.creator[1], [csd |-> FALSE], gacc, lacc) ELSE TRUE
          /\ IF dec.hastc = (Len(o.tc) = 1) THEN TRUE ELSE Note(w @@ [what |-> "timestamp_correlation presence"])
          /\ IF dec.hastc /\ Len(o.tc) = 1 THEN CompareMsg(w @@ [slot |-> "TimestampCorrelation"], MTimestampCorrelation, dec.tc, dec.tcskip, o.tc[1], [csd |-> FALSE], gacc, lacc) ELSE TRUE
          /\ IF ~ValidFileType(dec.ftype) THEN
                 IF o.accessors = << >> THEN TRUE ELSE Note(w @@ [what |-> "accessor succeeds for an unsupported file type", observed |-> o.accessors])
             ELSE
             /\ IF o.accessors = << TypeRec[dec.ftype].accessor >> THEN TRUE
                ELSE Note(w @@ [what |-> "accessors", expected |-> << TypeRec[dec.ftype].accessor >>, observed |-> o.accessors])
             /\ \A s \in SlotNames(dec.ftype) :
                  LET n == IF s \in DOMAIN dec.cnt THEN dec.cnt[s] ELSE IF s \in DOMAIN dec.single THEN 1 ELSE 0
                      on == IF s \in DOMAIN o.slots THEN Len(o.slots[s]) ELSE -1
                  IN /\ IF n = on THEN TRUE ELSE Note(w @@ [what |-> "slot count", slot |-> s, expected |-> n, observed |-> on])
                     \* a single-valued slot must hold the LAST message of its type
                     /\ IF s \in DOMAIN dec.single /\ on = 1 /\ dec.single[s].skip = {}
                           /\ ListToFun(o.slots[s][1].f) # dec.single[s].msg
                           /\ \E q \in DOMAIN dec.single[s].earlier : dec.single[s].earlier[q] = ListToFun(o.slots[s][1].f)
                        THEN Note(w @@ [what |-> "single slot holds an earlier message", slot |-> s])
                        ELSE TRUE
                     /\ IF s \in DOMAIN dec.single /\ on = 1
                        THEN CompareMsg(w @@ [slot |-> s], dec.single[s].m, dec.single[s].msg, dec.single[s].skip, o.slots[s][1], [csd |-> FALSE, cyc |-> FALSE, pow |-> FALSE], gacc, lacc)
                        ELSE TRUE
          /\ IF Call.opts.um = 0 THEN TRUE
             ELSE /\ IF IsSortedM(o.unkm) THEN TRUE ELSE Note(w @@ [what |-> "unknown messages not sorted", observed |-> o.unkm])
                  /\ IF o.hasunkm = 1 /\ (IF final = "accept" \/ dec.why # "truncated record" THEN o.unkm = SortedM(dec.unkm) ELSE Within(o.unkm, dec.unkm, 1)) THEN TRUE
                     ELSE Note(w @@ [what |-> "unknown message counts", expected |-> SortedM(dec.unkm), observed |-> o.unkm])
          /\ IF Call.opts.uf = 0 THEN TRUE
             ELSE /\ IF IsSortedF(o.unkf) THEN TRUE ELSE Note(w @@ [what |-> "unknown fields not sorted", observed |-> o.unkf])
                  /\ IF o.hasunkf = 1 /\ (IF final = "accept" \/ dec.why # "truncated record" THEN o.unkf = SortedF(dec.unkf) ELSE Within(o.unkf, dec.unkf, 2)) THEN TRUE
                     ELSE Note(w @@ [what |-> "unknown field counts", expected |-> SortedF(dec.unkf), observed |-> o.unkf])

\* every Read request must end inside the frame it starts in
ReadsOK(reads, frs) ==
    FoldLeft(LAMBDA st, r :
               LET inside == { i \in DOMAIN frs : frs[i][1] <= st.f /\ st.f < frs[i][2] } IN
               [f |-> st.f + r[2],
                ok |-> st.ok /\ (inside = {} \/ \A i \in inside : st.f + r[1] <= frs[i][2])],
             [f |-> 0, ok |-> TRUE], reads).ok

NextDec == IF ti + 1 <= Len(Traces) THEN InitDec(0, ModeOf(Traces[ti + 1].api), Traces[ti + 1].api = "encode") ELSE dec

\* end of the call: verdict against the observed return
CloseCall(final, frs, chainEnd) ==
    /\ IF Call.ret.panic = 1 THEN Note(Where @@ [what |-> "panic"]) ELSE TRUE
    /\ CASE chainEnd -> IF Call.ret.err = 0 THEN TRUE ELSE Note(Where @@ [what |-> "verdict", expected |-> "no error (clean end of chain)", observed |-> "error"])
         [] final = "accept" /\ ~chainEnd ->
              /\ IF Call.ret.err = 0 THEN TRUE ELSE Note(Where @@ [what |-> "verdict", expected |-> "accept", why |-> dec.why, observed |-> "error"])
              /\ IF Call.api # "encode" /\ dec.mode \in {"full", "crc"} /\ Call.ret.err = 0 /\ Call.ret.consumed # FrameEnd(dec)
                 THEN Note(Where @@ [what |-> "bytes consumed", expected |-> FrameEnd(dec), observed |-> Call.ret.consumed]) ELSE TRUE
         [] final = "reject" /\ ~chainEnd -> IF Call.ret.err = 1 THEN TRUE ELSE Note(Where @@ [what |-> "verdict", expected |-> "reject", why |-> dec.why, observed |-> "no error"])
         [] OTHER -> TRUE
    /\ IF ReadsOK(Call.reads, frs) THEN TRUE ELSE Note(Where @@ [what |-> "read past the frame", frames |-> frs])
    /\ Count(1)
    /\ TLCSet(5, Append(TLCGet(5), [trace |-> Call.id, files |-> fi, final |-> IF chainEnd THEN "chain end" ELSE final, why |-> dec.why, nrec |-> dec.nrec]))
    /\ ti' = ti + 1 /\ fi' = 1 /\ dec' = NextDec /\ frames' = << >>
    /\ IF ti + 1 <= Len(Traces) /\ Traces[ti + 1].reset = 1
       THEN gacc' = AccsZero /\ g0' = AccsZero ELSE gacc' = gacc /\ g0' = gacc
    /\ lacc' = AccsZero

FinishFile ==
    /\ dec.verdict # "run"
    /\ LET final == Final
           frs == IF FrameLenKnown(dec) THEN Append(frames, << dec.base, FrameEnd(dec) >>) ELSE frames
           atStart == dec.why = "eof at file start"
       IN
       \* a clean end of input exactly on a file boundary ends a chain
       IF Call.api = "chained" /\ fi > 1 /\ atStart /\ Call.fault = 0
       THEN /\ IF Len(Call.ret.files) = fi - 1 THEN TRUE ELSE Note(Where @@ [what |-> "chain length", expected |-> fi - 1, observed |-> Len(Call.ret.files)])
            /\ CloseCall("accept", frs, TRUE)
       ELSE
       /\ IF dec.mode \in {"full"} /\ dec.hdr.st = "ok" THEN
              IF HasFile THEN CompareFile(final)
              ELSE IF final = "either" THEN TRUE ELSE Note(Where @@ [what |-> "no file returned"])
          ELSE IF dec.mode = "full" /\ dec.hdr.st = "trunc" /\ HasFile
          THEN Note(Where @@ [what |-> "slot count", slot |-> "(whole file)", expected |-> 0, observed |-> Obs.nmsgs,
                              detail |-> "a File is returned for an input that ends inside its header"])
          ELSE TRUE
       /\ IF dec.mode \in {"header", "fileid"} /\ final = "accept" /\ Call.ret.err = 0 THEN
              /\ IF HdrEq(dec.hdr, Call.ret.hdr[1]) THEN TRUE ELSE Note(Where @@ [what |-> "returned header", expected |-> dec.hdr, observed |-> Call.ret.hdr[1]])
              /\ IF dec.mode = "fileid" THEN CompareMsg(Where @@ [slot |-> "FileId"], 0, dec.fileid, dec.fileidskip, Call.ret.fileid[1], [csd |-> FALSE], gacc, lacc) ELSE TRUE
          ELSE TRUE
       /\ IF Call.api = "chained" /\ final = "accept"
          THEN /\ ti' = ti /\ fi' = fi + 1 /\ frames' = frs
               /\ dec' = InitDec(FrameEnd(dec), "full", FALSE)
               /\ lacc' = AccsZero /\ g0' = gacc /\ gacc' = gacc
          ELSE CloseCall(final, frs, FALSE)

TNext == ti <= Len(Traces) /\ (Unit \/ FinishFile)

TSpec == TInit /\ [][TNext]_tvars

Post == /\ ndJsonSerialize("mismatch.ndjson", TLCGet(2))
        /\ ndJsonSerialize("summary.ndjson", TLCGet(5))
        /\ PrintT(<< "TRACES", TLCGet(1), Len(Traces), "MISMATCHES", Len(TLCGet(2)), "MESSAGES", TLCGet(3) >>)
        /\ TLCGet(1) = Len(Traces)
        /\ TLCGet(2) = << >>
=============================================================================
