------------------------------- MODULE Coord --------------------------------
(***************************************************************************)
(* C17: coordinate and time value types (Contract).                        *)
(* Semicircle values are int32 and fit TLC integers; everything wider      *)
(* (s * 45, float64 mantissas, printed form scaled by 10^5 * 2^29, Unix    *)
(* seconds) is an 8-byte little-endian two's complement tuple.             *)
(***************************************************************************)
EXTENDS Bytes, TLC

MinI == -2147483647 - 1
MaxI == 2147483647
Q == 1073741824            \* 2^30 semicircles = 90 degrees
Sentinel == MaxI

\* "valid" | "invalid" | "either"  (exactly +-90 degrees is left open)
LatClass(s) == IF s = Sentinel THEN "invalid"
               ELSE IF s = Q \/ s = -Q THEN "either"
               ELSE IF s < -Q \/ s > Q THEN "invalid"
               ELSE "valid"
LngClass(s) == IF s = Sentinel THEN "invalid" ELSE "valid"

\* every point where a class function changes value
LatBreaks == { MinI, -Q - 1, -Q, -Q + 1, Q - 1, Q, Q + 1, MaxI - 1, MaxI }
LngBreaks == { MinI, MaxI - 1, MaxI }

I32(b) == IF b[4] >= 128
          THEN (b[1] + 256 * b[2] + 65536 * b[3] + 16777216 * (b[4] - 128)) - 2147483647 - 1
          ELSE b[1] + 256 * b[2] + 65536 * b[3] + 16777216 * b[4]

Agrees(class, obsInvalid) == class = "either" \/ (class = "invalid") = obsInvalid

\* An observed run [lo, hi, invalid] of the Invalid() predicate agrees with the
\* class function if it does at lo, hi and every breakpoint inside.
RunOK(Class(_), breaks, run) ==
    LET lo == I32(run[1])  hi == I32(run[2]) IN
    \A x \in ({lo, hi} \cup { b \in breaks : lo <= b /\ b <= hi }) : Agrees(Class(x), run[3] = 1)

---------------------------------------------------------------------------
(* 64-bit unsigned arithmetic on four 16-bit limbs (little-endian); every    *)
(* intermediate product stays below 2^31.  Signs are handled separately.     *)
\* magnitude of an int32 as limbs (|MinI| = 2^31 needs care)
MagOf(n) == IF n = MinI THEN << 0, 32768, 0, 0 >>
            ELSE LET a == IF n < 0 THEN -n ELSE n IN << a % 65536, a \div 65536, 0, 0 >>
Limbs8(b) == << b[1] + 256 * b[2], b[3] + 256 * b[4], b[5] + 256 * b[6], b[7] + 256 * b[8] >>
MulSmall(x, m) ==          \* x * m mod 2^64, 0 <= m < 2^15
    LET p0 == x[1] * m
        p1 == x[2] * m + (p0 \div 65536)
        p2 == x[3] * m + (p1 \div 65536)
        p3 == x[4] * m + (p2 \div 65536)
    IN  << p0 % 65536, p1 % 65536, p2 % 65536, p3 % 65536 >>
RECURSIVE ShlL(_, _)
ShlL(x, k) == IF k = 0 THEN x ELSE IF k >= 14 THEN ShlL(MulSmall(x, 16384), k - 14) ELSE MulSmall(x, 2 ^ k)
AddL(a, b) ==
    LET s0 == a[1] + b[1]
        s1 == a[2] + b[2] + (s0 \div 65536)
        s2 == a[3] + b[3] + (s1 \div 65536)
        s3 == a[4] + b[4] + (s2 \div 65536)
    IN  << s0 % 65536, s1 % 65536, s2 % 65536, s3 % 65536 >>
LeqL(a, b) == IF a[4] # b[4] THEN a[4] < b[4] ELSE IF a[3] # b[3] THEN a[3] < b[3]
              ELSE IF a[2] # b[2] THEN a[2] < b[2] ELSE a[1] <= b[1]
SubL(a, b) ==              \* a - b for a >= b
    LET d0 == a[1] - b[1]                          c0 == IF d0 < 0 THEN 1 ELSE 0
        d1 == a[2] - b[2] - c0                     c1 == IF d1 < 0 THEN 1 ELSE 0
        d2 == a[3] - b[3] - c1                     c2 == IF d2 < 0 THEN 1 ELSE 0
        d3 == a[4] - b[4] - c2
    IN  << (d0 + 65536) % 65536, (d1 + 65536) % 65536, (d2 + 65536) % 65536, (d3 + 65536) % 65536 >>
AbsDiffL(a, b) == IF LeqL(b, a) THEN SubL(a, b) ELSE SubL(b, a)

Z8 == Fill(8, 0)
\* float64 bits (8 bytes LE) of exactly s * 45 / 2^29, for s # 0:
\* mantissa (with hidden bit) = |s|*45 << k, biased exponent = 1046 - k
DegreesBitsOK(s, bits) ==
    IF s = 0 THEN bits = Z8 \/ bits = << 0, 0, 0, 0, 0, 0, 0, 128 >>
    ELSE LET n == MulSmall(MagOf(s), 45)
             e == (bits[8] % 128) * 16 + (bits[7] \div 16)
             mant == Limbs8(<< bits[1], bits[2], bits[3], bits[4], bits[5], bits[6], (bits[7] % 16) + 16, 0 >>)
             k == 1046 - e
         IN  /\ (bits[8] >= 128) = (s < 0)
             /\ k >= 0 /\ k <= 52
             /\ ShlL(n, k) = mant
IsNaN(bits) == (bits[8] % 128) * 16 + (bits[7] \div 16) = 2047 /\ (bits[7] % 16 # 0 \/ \E i \in 1..6 : bits[i] # 0)

\* printed form P (integer = printed degrees * 10^5): |P * 2^29 - s * 45 * 10^5| <= 2 * 2^29
PrintedOK(s, p) ==
    LET a == ShlL(MagOf(p), 29)
        b == MulSmall(MulSmall(MulSmall(MagOf(s), 45), 1000), 100)
        same == (s >= 0 /\ p >= 0) \/ (s <= 0 /\ p <= 0)
        d == IF same THEN AbsDiffL(a, b) ELSE AddL(a, b)
    IN  LeqL(d, << 0, 16384, 0, 0 >>)           \* 2^30

\* time: Unix seconds of epoch + u; FIT epoch = 1989-12-31T00:00:00Z = 631065600 = 0x259D4C00
EpochUnixL == << 19456, 9629, 0, 0 >>
TimeUnixL(u4) == AddL(<< u4[1] + 256 * u4[2], u4[3] + 256 * u4[4], 0, 0 >>, EpochUnixL)
=============================================================================
