----------------------------- MODULE Validator ------------------------------
(***************************************************************************)
(* C01, field definitions.  Validate transcribes reader.go:validateFieldDef *)
(* (Impl); StoreSafe states what the reflection setters that                *)
(* parseDataFields / parseFitField / parseFitFieldArray will then use can   *)
(* accept without panicking.  The theorem  Validate = "ok" => StoreSafe     *)
(* is evaluated by TLC for every profile class x all 256 base-type bytes x  *)
(* all 256 sizes.                                                           *)
(*                                                                         *)
(* A profile class is [found, b (base index), a (array), k (kind)];        *)
(* found = FALSE stands for an unknown field or an unknown message.        *)
(***************************************************************************)
EXTENDS FitBase

IntegerT == << FALSE, TRUE, TRUE, TRUE, TRUE, TRUE, TRUE, FALSE, FALSE, FALSE,
               TRUE, TRUE, TRUE, FALSE, TRUE, TRUE, TRUE >>
\* internal/types: Float() == !Integer() && Signed()
ImplFloat(i) == ~IntegerT[i + 1] /\ SignedB(i)

\* types.Base.Known(): index in range and multi-byte flag consistent with the size
ImplKnown(b) == (b % 32) < 17 /\ (((b \div 128) = 1) <=> (SizeOf(b % 32) > 1))

Validate(cls, b, sz) ==
    LET i == b % 32 IN
    IF ~ImplKnown(b) THEN "reject"
    ELSE IF b = 7 THEN (IF ~cls.found THEN "ok" ELSE IF cls.b = 7 THEN "ok" ELSE "reject")
    ELSE IF sz < SizeOf(i) THEN "reject"
    ELSE IF ~cls.found THEN "ok"
    ELSE IF cls.a = 0 THEN
         IF sz > SizeOf(cls.b) THEN "reject"
         ELSE IF b # BCode[cls.b + 1] THEN
              IF SignedB(cls.b) # SignedB(i) \/ (ImplFloat(i) /\ ~ImplFloat(cls.b)) \/ (cls.b = 7 /\ b # 7)
              THEN "reject" ELSE "ok"
         ELSE "ok"
    ELSE IF sz % SizeOf(i) # 0 THEN "reject"
    ELSE IF b # BCode[cls.b + 1] THEN "reject"
    ELSE "ok"

\* Go kind of the struct field a profile base type is generated as
GoKind(i) == CASE i \in {0, 2, 4, 6, 10, 11, 12, 13, 15, 16} -> "uint"
               [] i \in {1, 3, 5, 14} -> "int"
               [] i \in {8, 9} -> "float"
               [] i = 7 -> "string"

\* the setter parseFitField picks for a definition base byte, and the bytes
\* of the scratch buffer it reads first
Setter(b) == CASE b \in {13, 0, 2, 10} -> [k |-> "uint", need |-> 1]
               [] b = 1 -> [k |-> "int", need |-> 1]
               [] b = 131 -> [k |-> "int", need |-> 2]
               [] b \in {132, 139} -> [k |-> "uint", need |-> 2]
               [] b = 133 -> [k |-> "int", need |-> 4]
               [] b \in {134, 140} -> [k |-> "uint", need |-> 4]
               [] b = 136 -> [k |-> "float", need |-> 4]
               [] b = 137 -> [k |-> "float", need |-> 8]
               [] b = 7 -> [k |-> "string", need |-> 0]
               [] OTHER -> [k |-> "error", need |-> 0]       \* "unknown base type": an error, not a panic

TmpLen == 765
\* indices touched by the padding loops for a scalar non-string profile field
PaddingSafe(cls, sz) == LET w == SizeOf(cls.b) IN (w - sz >= 0) /\ (2 * w <= TmpLen)

StoreSafe(cls, b, sz) ==
    IF ~cls.found THEN sz <= TmpLen
    ELSE IF cls.k # 0 THEN 4 <= TmpLen /\ (cls.a = 1 \/ cls.b = 7 \/ PaddingSafe(cls, sz))   \* reads tmp[:4], Set(reflect.ValueOf(x))
    ELSE IF cls.a = 0 THEN
         LET s == Setter(b) IN
         /\ (cls.b = 7 \/ PaddingSafe(cls, sz))
         /\ (s.k = "error" \/ (s.k = GoKind(cls.b) /\ s.need <= sz) \/ (s.k = "string" /\ GoKind(cls.b) = "string"))
    ELSE \* arrays: element setter must match the slice's element kind; b = profile base (validated)
         LET s == Setter(b) IN
         s.k = "error" \/ b = 13 \/ (s.k = GoKind(cls.b) /\ sz % SizeOf(b % 32) = 0)

\* what happens to the data record that follows an accepted definition
DataVerdict(cls, b, sz) ==
    IF ~cls.found \/ cls.k # 0 THEN "ok"
    ELSE IF Setter(b).k = "error" THEN "error" ELSE "ok"

Expected(cls, b, sz) == IF Validate(cls, b, sz) = "reject" THEN "reject" ELSE DataVerdict(cls, b, sz)
=============================================================================
