----------------------------- MODULE EncoderImpl -----------------------------
(***************************************************************************)
(* C05 / C06 / C08 at model level: transcription of writer.go (Impl) -     *)
(*   getEncodeMesgDef   a field is written iff its value differs from the  *)
(*                      all-invalid value (slices: iff non-nil)            *)
(*   encodeFile         one definition per message group = union of the    *)
(*                      fields of its messages, in field-number order      *)
(*                      (before ae2f509: in map-iteration order)           *)
(*   writeDefMesg       size = base size, x length for arrays              *)
(*   writeMesg/Field    values in the chosen byte order; a field missing   *)
(*                      in one message of the group is written as its      *)
(*                      invalid value; arrays padded with invalid elements *)
(*   Encode             header (12 / 14 bytes, CRC), data size, file CRC   *)
(* - checked against the Contract: the bytes are parsed by the reference   *)
(* decoder FitRef (enc mode) and must give back exactly the File; and      *)
(* Encode must be a function of the File (Deterministic).                  *)
(* Files: an activity file with up to MaxRecords record messages, each     *)
(* setting any subset of timestamp / heart_rate / speed / speed_1s.        *)
(***************************************************************************)
EXTENDS FitRef

CONSTANTS MaxRecords, PreFixMapOrder

RecM == 20                                       \* record
FieldNums == {253, 3, 6, 17}
\* in-domain values, canonical form (little-endian; time = seconds ++ 8 zero bytes)
ValuesOf(n) == CASE n = 253 -> { << 16, 0, 0, 56 >> \o Zero8 }
                 [] n = 3   -> { << 60 >>, << 254 >> }
                 [] n = 6   -> { << 1, 2 >> }
                 [] n = 17  -> { << 5 >>, << 5, 255, 7 >> }     \* arrays shorter than the profile length 5

Msgs == UNION { [FS -> UNION { ValuesOf(n) : n \in FS }] : FS \in SUBSET FieldNums }
GoodMsgs == { m \in Msgs : \A n \in DOMAIN m : m[n] \in ValuesOf(n) }

Wire(le, arch) == IF arch = 0 THEN le ELSE Rev(le)

\* struct order of the profile fields (getEncodeMesgDef walks the struct)
BySindex(FS) == SetToSortSeq(FS, LAMBDA a, b : PF(RecM, a).s < PF(RecM, b).s)
ByNumber(FS) == SetToSortSeq(FS, <)

SizeOnWire(n) == LET p == PF(RecM, n) IN IF p.b = 7 THEN p.l ELSE SizeOf(p.b) * (IF p.a = 1 THEN p.l ELSE 1)
BaseByte(n) == BCode[PF(RecM, n).b + 1]

DefRecord(order, arch) ==
    << 64, 0, arch >> \o Wire(<< RecM % 256, RecM \div 256 >>, arch) \o << Len(order) >>
    \o FoldLeft(LAMBDA acc, n : acc \o << n, SizeOnWire(n), BaseByte(n) >>, << >>, order)

FieldOnWire(m, n, arch) ==
    LET p == PF(RecM, n) IN
    IF n \notin DOMAIN m THEN
        (IF p.k = 1 THEN Zero4                                 \* the invalid time (FIT base time) is written as 0 seconds
         ELSE IF p.a = 1 THEN Fill(p.l, InvalidOf(p.b)[1])
         ELSE Wire(InvalidOf(p.b), arch))
    ELSE IF p.k = 1 THEN Wire(SubSeq(m[n], 1, 4), arch)
    ELSE IF p.a = 1 THEN m[n] \o Fill(p.l - Len(m[n]), InvalidOf(p.b)[1])   \* 1-byte elements in this model
    ELSE Wire(m[n], arch)

DataRecord(m, order, arch) == << 0 >> \o FoldLeft(LAMBDA acc, n : acc \o FieldOnWire(m, n, arch), << >>, order)

\* the possible definition orders of a group
Orders(recs) ==
    LET U == UNION { DOMAIN recs[i] : i \in DOMAIN recs } IN
    IF PreFixMapOrder THEN { o \in [1..Cardinality(U) -> U] : \A a, b \in 1..Cardinality(U) : a # b => o[a] # o[b] }
    ELSE { ByNumber(U) }

FileIdRecords(arch) == << 64, 0, arch, 0, 0, 1, 0, 1, 0 >> \o << 0, 4 >>     \* file_id: type = activity

Body(recs, order, arch) ==
    FileIdRecords(arch)
    \o (IF recs = << >> THEN << >>
        ELSE DefRecord(order, arch) \o FoldLeft(LAMBDA acc, i : acc \o DataRecord(recs[i], order, arch), << >>, [i \in DOMAIN recs |-> i]))

Encoded(recs, order, arch, hsize) ==
    LET b == Body(recs, order, arch)
        h12 == << hsize, 16, 67, 8, Len(b) % 256, Len(b) \div 256, 0, 0, 46, 70, 73, 84 >>
        h == IF hsize = 14 THEN h12 \o LE16(Crc(h12)) ELSE h12
        x == h \o b
    IN  x \o LE16(Crc(x))

\* the Contract's parse of the output
RECURSIVE RunFrom(_, _, _)
RunFrom(in, dec, outs) ==
    IF dec.verdict # "run" THEN [dec |-> dec, outs |-> outs]
    ELSE LET r == Step(in, Len(in), dec) IN
         RunFrom(in, r.dec, IF r.out.kind \in {"msg", "single"} THEN Append(outs, r.out) ELSE outs)
Parse(in) == RunFrom(in, InitDec(0, "full", TRUE), << >>)

StripFF(v) == IF v # << >> /\ v[Len(v)] = 255 THEN SubSeq(v, 1, Len(v) - 1) ELSE v
RECURSIVE StripAll(_)
StripAll(v) == IF StripFF(v) = v THEN v ELSE StripAll(StripFF(v))

\* decoded message (sindex -> value) equals the message put in
SameMsg(out, m) ==
    LET got == out.msg IN
    /\ \A n \in DOMAIN m :
         LET s == PF(RecM, n).s IN
         /\ s \in DOMAIN got
         /\ IF PF(RecM, n).a = 1 THEN StripAll(got[s]) = StripAll(m[n]) ELSE got[s] = m[n]
    /\ \A s \in DOMAIN got : (\E n \in DOMAIN m : PF(RecM, n).s = s)
                               \/ (\E n2 \in FieldNums : PF(RecM, n2).s = s /\ PF(RecM, n2).a = 1 /\ StripAll(got[s]) = << >>)

RoundTrips(recs, arch, hsize) ==
    \A order \in Orders(recs) :
      LET r == Parse(Encoded(recs, order, arch, hsize)) IN
      /\ r.dec.verdict = "accept"
      /\ Len(r.outs) = Len(recs)
      /\ \A i \in DOMAIN recs : r.outs[i].slot = "Records" /\ SameMsg(r.outs[i], recs[i])

Deterministic(recs, arch, hsize) == Cardinality({ Encoded(recs, o, arch, hsize) : o \in Orders(recs) }) = 1

\* 254 as heart_rate is valid, 255 would be "unset"; a message may be empty
Files == UNION { [1..k -> GoodMsgs] : k \in 0..MaxRecords }

AllRoundTrip == \A recs \in Files : \A arch \in {0, 1} : \A hs \in {12, 14} : RoundTrips(recs, arch, hs)
AllDeterministic == \A recs \in Files : \A arch \in {0, 1} : Deterministic(recs, arch, 12)
NFiles == Cardinality(Files)
=============================================================================
