------------------------------- MODULE Crc16 -------------------------------
(***************************************************************************)
(* CRC-16/ARC as the FIT protocol defines it, and the nibble-table form    *)
(* that dyncrc16.updateByte uses.                                          *)
(*                                                                         *)
(*  BitStep  - the definition: reflected LFSR, polynomial 0xA001, one bit  *)
(*             at a time, zero initial value, no final xor (Contract).     *)
(*  NibStep  - transcription of dyncrc16.updateByte: 16-entry table, low   *)
(*             nibble first (Impl).                                        *)
(*  TabStep  - byte-table form, used to hand a compact oracle to the Go    *)
(*             side (the 256-entry table T is derived from BitStep).       *)
(***************************************************************************)
EXTENDS Naturals, Sequences, Bitwise, SequencesExt

Poly == 40961                      \* 0xA001

Bit1(r) == IF r % 2 = 1 THEN (r \div 2) ^^ Poly ELSE r \div 2

BitStep(s, b) ==
    LET r0 == s ^^ b
        r1 == Bit1(r0)  r2 == Bit1(r1)  r3 == Bit1(r2)  r4 == Bit1(r3)
        r5 == Bit1(r4)  r6 == Bit1(r5)  r7 == Bit1(r6)  r8 == Bit1(r7)
    IN  r8

\* dyncrc16.crcTable
NibTable == << 0, 52225, 55297, 5120, 61441, 15360, 10240, 58369,
               40961, 27648, 30720, 46081, 20480, 39937, 34817, 17408 >>

NibStep(s, b) ==
    LET t1 == NibTable[(s % 16) + 1]
        d1 == ((s \div 16) ^^ t1) ^^ NibTable[(b % 16) + 1]
        t2 == NibTable[(d1 % 16) + 1]
        d2 == ((d1 \div 16) ^^ t2) ^^ NibTable[(b \div 16) + 1]
    IN  d2

T == [x \in 0..255 |-> BitStep(0, x)]

TabStep(s, b) == (s \div 256) ^^ T[((s % 256) ^^ b)]

RECURSIVE CrcFrom(_, _, _)
CrcFrom(r, seq, k) == IF k > Len(seq) THEN r ELSE CrcFrom(BitStep(r, seq[k]), seq, k + 1)

Crc(seq) == CrcFrom(0, seq, 1)

\* the same function without deep recursion, for long inputs
CrcFold(r, seq) == FoldLeft(LAMBDA x, y : BitStep(x, y), r, seq)

LE16(v) == << v % 256, v \div 256 >>
=============================================================================
