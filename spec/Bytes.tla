-------------------------------- MODULE Bytes -------------------------------
(***************************************************************************)
(* Byte tuples.  TLC integers are 32-bit, so every quantity that can       *)
(* exceed 2^31-1 (uint32 fields, timestamps, accumulators, data sizes) is  *)
(* a little-endian tuple of bytes; arithmetic is done on 16-bit limbs.     *)
(***************************************************************************)
EXTENDS Integers, Sequences

Fill(n, v) == [i \in 1..n |-> v]
Rev(s) == [i \in 1..Len(s) |-> s[Len(s) + 1 - i]]

\* wire bytes -> little-endian (arch 0 = little-endian, 1 = big-endian)
Norm(bs, arch) == IF arch = 0 THEN bs ELSE Rev(bs)

ZeroExt(bs, w) == IF Len(bs) >= w THEN bs ELSE bs \o Fill(w - Len(bs), 0)
SignExt(bs, w) == IF Len(bs) >= w THEN bs
                  ELSE bs \o Fill(w - Len(bs), IF bs[Len(bs)] >= 128 THEN 255 ELSE 0)

Slice(s, pos, n) == SubSeq(s, pos, pos + n - 1)          \* n bytes from 1-based pos

U16(bs) == bs[1] + 256 * bs[2]
Lo(bs) == bs[1] + 256 * bs[2]
Hi(bs) == bs[3] + 256 * bs[4]
FromLimbs(lo, hi) == << lo % 256, lo \div 256, hi % 256, hi \div 256 >>
U32OfInt(n) == FromLimbs(n % 65536, n \div 65536)         \* 0 <= n < 2^31
FitsInt(bs) == Hi(bs) < 16384                              \* < 2^30
ToInt(bs) == Lo(bs) + 65536 * Hi(bs)                       \* only when FitsInt

U32AddSmall(bs, k) ==                                      \* (bs + k) mod 2^32, 0 <= k < 2^16
    LET lo == Lo(bs) + k
        hi == Hi(bs) + (lo \div 65536)
    IN  FromLimbs(lo % 65536, hi % 65536)

\* a - b on uint32 tuples: value mod 2^32 and the borrow (1 iff a < b)
U32Sub(a, b) ==
    LET lo == Lo(a) - Lo(b)
        bl == IF lo < 0 THEN 1 ELSE 0
        hi == Hi(a) - Hi(b) - bl
        bh == IF hi < 0 THEN 1 ELSE 0
    IN  [v |-> FromLimbs((lo + 65536) % 65536, (hi + 65536) % 65536), borrow |-> bh]

U32Lt(a, b) == Hi(a) < Hi(b) \/ (Hi(a) = Hi(b) /\ Lo(a) < Lo(b))

\* signed difference a - b of two uint32 values as 8 bytes two's complement
Diff64(a, b) == LET d == U32Sub(a, b) IN d.v \o Fill(4, IF d.borrow = 1 THEN 255 ELSE 0)

RECURSIVE AddC(_, _, _, _)
AddC(a, b, i, c) == IF i > Len(a) THEN << >>
                    ELSE LET s == a[i] + b[i] + c IN << s % 256 >> \o AddC(a, b, i + 1, s \div 256)
AddBytes(a, b) == AddC(a, b, 1, 0)                          \* equal lengths, wraps

\* index (1-based) of the first 0 byte, or Len+1
RECURSIVE NulAt(_, _)
NulAt(s, i) == IF i > Len(s) THEN i ELSE IF s[i] = 0 THEN i ELSE NulAt(s, i + 1)
UpToNul(s) == SubSeq(s, 1, NulAt(s, 1) - 1)


=============================================================================
