----------------------------- MODULE MC_ApiImpl -----------------------------
EXTENDS ApiImpl
\* pool: A has accumulating records (with a rollover), B has none, C has one
MC_Inputs == << << 5, Plain, 2 >>, << Plain, Plain >>, << 7 >> >>
MC_Procs1 == {1}
MC_Procs2 == {1, 2}
\* print the schedule of every completed behaviour (all calls returned)
Quiescent == ncalls = MaxCalls /\ \A p \in Procs : pc[p] = "idle"
EmitSchedules == Quiescent => PrintT("SCHEDULE " \o ToString(hist))
=============================================================================
