------------------------------- MODULE FitRef -------------------------------
(***************************************************************************)
(* Reference semantics of FIT decoding (Contract).                         *)
(*                                                                         *)
(* The decoder is a step function over an explicit state record `dec`:     *)
(* one step per protocol unit (file header, file_id definition, file_id    *)
(* data, each later record, the trailing CRC).  The wrapper modules give   *)
(* each unit a named action:                                               *)
(*    MC_Records     explores it exhaustively over a small record alphabet *)
(*    Trace_Decode   runs it over the inputs of recorded calls of the real *)
(*                   library and compares every produced message           *)
(*                                                                         *)
(* Verdicts are three-valued (DESIGN.md 2.4):                              *)
(*   accept - well-formed, profile-compatible: the library MUST succeed    *)
(*   reject - truncated / faulted, checksum wrong, data record without     *)
(*            definition, file type not one of the supported ones: MUST    *)
(*            fail                                                         *)
(*   either - anything else; the walk stops, nothing further is compared   *)
(***************************************************************************)
EXTENDS FitValues, Crc16, SequencesExt, FiniteSets

NoDef == [m |-> -1]

TsNone  == [k |-> "none", v |-> Zero4]
TsTaint == [k |-> "taint", v |-> Zero4]
TsVal(v) == IF v = Zero4 THEN TsTaint ELSE [k |-> "val", v |-> v]

AccZero == [a |-> Zero4, l |-> 0, bad |-> FALSE]
AccsZero == [dist |-> AccZero, cyc |-> AccZero, pow |-> AccZero]

\* running sum of rollover-corrected deltas: a' = a + ((v - last) mod 2^bits)
Accumulate(acc, v, bits) ==
    LET d == ((v - acc.l) + 65536) % (2 ^ bits) IN [a |-> U32AddSmall(acc.a, d), l |-> v, bad |-> acc.bad]
Taint(acc) == [acc EXCEPT !.bad = TRUE]

CrcRange(r, in, a, b) == IF a > b THEN r ELSE FoldLeft(LAMBDA x, y : TabStep(x, y), r, SubSeq(in, a, b))

---------------------------------------------------------------------------
(* Header *)

DotFIT == << 46, 70, 73, 84 >>

\* in: input bytes; base: offset of the file in the input; avail: number of
\* input bytes that can be read before EOF/fault
HeaderAt(in, base, avail) ==
    IF avail < base + 1 THEN [st |-> "trunc", got |-> avail - base]
    ELSE LET sz == in[base + 1] IN
    IF sz \notin {12, 14} THEN [st |-> "either", why |-> "header size", got |-> 1]
    ELSE IF avail < base + sz THEN [st |-> "trunc", got |-> avail - base]
    ELSE LET hb   == SubSeq(in, base + 1, base + sz)
             ds   == SubSeq(hb, 5, 8)
             crc  == IF sz = 14 THEN hb[13] + 256 * hb[14] ELSE 0
             calc == Crc(SubSeq(hb, 1, 12))
             odd  == (hb[2] \div 16 > 2) \/ SubSeq(hb, 9, 12) # DotFIT
             rec  == [size |-> sz, proto |-> hb[2], profile |-> hb[3] + 256 * hb[4],
                      datasize |-> ds, datatype |-> SubSeq(hb, 9, 12), crc |-> crc, got |-> sz]
         IN  IF sz = 14 /\ crc # 0 /\ crc # calc THEN rec @@ [st |-> "reject", why |-> "header crc"]
             ELSE IF odd THEN rec @@ [st |-> "either", why |-> "header fields"]
             ELSE rec @@ [st |-> "ok"]

---------------------------------------------------------------------------
(* Records *)

RecKind(h) == IF h >= 128 THEN "cdata" ELSE IF (h \div 64) % 2 = 1 THEN "def" ELSE "data"

\* definition record at pos (1-based index of its header byte)
DefAt(in, pos, avail) ==
    LET h == in[pos]  dev == (h \div 32) % 2 IN
    IF pos + 5 > avail THEN [st |-> "trunc"]
    ELSE LET arch == in[pos + 2]
             nf   == in[pos + 5]
             fend == pos + 5 + 3 * nf
         IN
         IF fend + dev > avail THEN [st |-> "trunc"]
         ELSE LET nd   == IF dev = 1 THEN in[fend + 1] ELSE 0
                  dend == fend + dev + 3 * nd
              IN
              IF dend > avail THEN [st |-> "trunc"]
              ELSE IF arch \notin {0, 1} THEN [st |-> "either", why |-> "arch", len |-> dend - pos + 1]
              ELSE
              LET m    == IF arch = 0 THEN in[pos + 3] + 256 * in[pos + 4] ELSE in[pos + 4] + 256 * in[pos + 3]
                  kn   == Known(m)
                  raw  == [i \in 1..nf |-> LET q == pos + 6 + 3 * (i - 1) IN [n |-> in[q], sz |-> in[q + 1], b |-> in[q + 2]]]
                  nums == { raw[i].n : i \in 1..nf }
                  ok   == /\ m # 65535
                          /\ Cardinality(nums) = nf
                          /\ \A i \in 1..nf : CompatField(m, raw[i].n, raw[i].b, raw[i].sz)
                  flds == [i \in 1..nf |->
                             LET has == HasField(m, raw[i].n) IN
                             [n |-> raw[i].n, sz |-> raw[i].sz, i |-> IdxOf(raw[i].b), has |-> has,
                              p |-> IF has THEN PF(m, raw[i].n) ELSE [s |-> -1, b |-> 0, a |-> 0, k |-> 0, l |-> 0, n |-> 0, t |-> 0]]]
                  devsz == IF nd = 0 THEN 0 ELSE FoldLeft(LAMBDA x, j : x + in[fend + 1 + 3 * (j - 1) + 2], 0, [j \in 1..nd |-> j])
                  dlen == FoldLeft(LAMBDA x, j : x + raw[j].sz, 0, [j \in 1..nf |-> j]) + devsz
                  i253 == IF \E i \in 1..nf : raw[i].n = 253 THEN CHOOSE i \in 1..nf : raw[i].n = 253 ELSE 0
              IN  IF ~ok THEN [st |-> "either", why |-> "definition", len |-> dend - pos + 1]
                  ELSE [st |-> "ok", len |-> dend - pos + 1, local |-> h % 16,
                        def |-> [m |-> m, arch |-> arch, known |-> kn, flds |-> flds, dlen |-> dlen, i253 |-> i253,
                                 unk |-> IF kn THEN { raw[i].n : i \in { j \in 1..nf : ~HasField(m, raw[j].n) } } ELSE {}]]

Without(f, s) == [x \in DOMAIN f \ {s} |-> f[x]]
Put(f, s, v) == (s :> v) @@ f

\* one field of a known message with a profile entry
FieldStep(d, i, f, raw, acc) ==
    LET p == f.p  s == p.s IN
    CASE p.k = 0 ->
           LET v == NativeVal(p, f.i, raw, d.arch) IN
           IF v = Absent THEN acc
           ELSE IF v = Unpinned THEN [acc EXCEPT !.skip = @ \cup {s}]
           ELSE [acc EXCEPT !.msg = Put(@, s, v)]
      [] p.k = 1 ->
           LET secs == Norm(raw, d.arch) IN
           IF secs = Ones4 THEN acc
           ELSE LET a1 == IF secs = Zero4 THEN [acc EXCEPT !.msg = Without(@, s)]
                          ELSE [acc EXCEPT !.msg = Put(@, s, TimeVal(secs))]
                IN IF f.n = 253 THEN [a1 EXCEPT !.ts = TsVal(secs)] ELSE a1
      [] p.k = 2 ->
           LET lv == Norm(raw, d.arch)
               later == d.i253 > i          \* the record's own timestamp follows
           IN
           IF lv = Ones4 THEN acc
           ELSE IF acc.enc THEN [acc EXCEPT !.msg = Put(@, s, WallOnly(lv))]
           ELSE IF acc.ts.k = "val" /\ Hi(acc.ts.v) >= 4096
                THEN [acc EXCEPT !.msg = Put(@, s, IF later THEN WallOnly(lv) ELSE acc.ts.v \o Diff64(lv, acc.ts.v))]
           ELSE IF acc.ts.k = "none"
                THEN [acc EXCEPT !.msg = IF later THEN Put(@, s, WallOnly(lv))
                                         ELSE IF lv = Zero4 THEN Without(@, s) ELSE Put(@, s, TimeVal(lv)),
                                 !.ts = TsTaint]
           ELSE [acc EXCEPT !.msg = Put(@, s, WallOnly(lv)), !.ts = TsTaint]
      [] p.k = 3 ->
           LET v == LatVal(raw, d.arch) IN
           IF v = Absent THEN acc ELSE IF v = Unpinned THEN [acc EXCEPT !.skip = @ \cup {s}]
           ELSE [acc EXCEPT !.msg = Put(@, s, v)]
      [] p.k = 4 ->
           LET v == LngVal(raw, d.arch) IN
           IF v = Absent THEN acc ELSE [acc EXCEPT !.msg = Put(@, s, v)]

RECURSIVE FieldsFrom(_, _, _, _, _)
FieldsFrom(in, d, i, q, acc) ==
    IF i > Len(d.flds) THEN acc
    ELSE LET f == d.flds[i] IN
         FieldsFrom(in, d, i + 1, q + f.sz,
                    IF d.known /\ f.has THEN FieldStep(d, i, f, SubSeq(in, q, q + f.sz - 1), acc) ELSE acc)

\* data record at pos with definition d; coff = -1 or the 5-bit time offset
DataAt(in, pos, avail, d, coff, ts, enc) ==
    IF pos + d.dlen > avail THEN [st |-> "trunc"]
    ELSE
    LET has253 == HasField(d.m, 253) /\ PF(d.m, 253).k = 1
        s253   == IF has253 THEN PF(d.m, 253).s ELSE -1
        newv   == U32AddSmall(ts.v, ((coff - (Lo(ts.v) % 32)) + 32) % 32)
        ts1    == IF coff >= 0 /\ ts.k = "val" THEN TsVal(newv) ELSE ts
        a0     == [msg |-> IF coff >= 0 /\ ts.k = "val" /\ has253 /\ ts1.k = "val" THEN (s253 :> TimeVal(newv)) ELSE << >>,
                   skip |-> IF coff >= 0 /\ has253 /\ (ts.k # "val" \/ ts1.k # "val") THEN {s253} ELSE {},
                   ts |-> ts1, enc |-> enc]
        r      == FieldsFrom(in, d, 1, pos + 1, a0)
    IN  [st |-> "ok", len |-> 1 + d.dlen, msg |-> r.msg, skip |-> r.skip, ts |-> r.ts]

---------------------------------------------------------------------------
(* Component expansion (C18): destination = bit slice of the source; an    *)
(* invalid source leaves the destination alone.  A destination that the    *)
(* record also carries explicitly is left unpinned.                        *)

S(m, n) == PF(m, n).s
Has(msg, m, n) == HasField(m, n) /\ S(m, n) \in DOMAIN msg

\* <<source, destination>> pairs of 16-bit -> 32-bit "enhanced" copies
Enhance == [ m \in {18, 19, 20, 142} |->
             CASE m = 20  -> << <<2, 78>>, <<6, 73>> >>
               [] m = 19  -> << <<13, 110>>, <<14, 111>>, <<42, 112>>, <<43, 114>>, <<62, 113>> >>
               [] m = 18  -> << <<14, 124>>, <<15, 125>>, <<49, 126>>, <<50, 128>>, <<71, 127>> >>
               [] m = 142 -> << <<34, 91>>, <<35, 92>>, <<54, 93>> >> ]

Skipped(x, m, n) == HasField(m, n) /\ S(m, n) \in x.skip

ApplyEnhance(m, r, explicit) ==
    FoldLeft(LAMBDA x, pr :
               IF ~HasField(m, pr[1]) \/ ~HasField(m, pr[2]) THEN x
               ELSE IF Skipped(x, m, pr[1]) THEN [x EXCEPT !.skip = @ \cup {S(m, pr[2])}]   \* unpinned source
               ELSE IF Has(x.msg, m, pr[1])
               THEN [x EXCEPT !.msg = Put(@, S(m, pr[2]), ZeroExt(x.msg[S(m, pr[1])], 4))]   \* "each destination receives the slice of the source", also when the record carries the destination itself
               ELSE x,
             r, Enhance[m])

\* record (20): compressed_speed_distance(8) -> speed(6), distance(5, accumulated, 12 bits);
\* cycles(18) -> total_cycles(19, accumulated, 8 bits);
\* compressed_accumulated_power(28) -> accumulated_power(29, accumulated, 16 bits)
ExpandRecord(r0, explicit, accs) ==
    LET r1 == ApplyEnhance(20, r0, explicit)
        csd == IF Has(r1.msg, 20, 8) THEN r1.msg[S(20, 8)] ELSE << >>
        doCsd == Len(csd) = 3 /\ csd # << 255, 255, 255 >>
        spd == IF doCsd THEN csd[1] + 256 * (csd[2] % 16) ELSE 0
        d12 == IF doCsd THEN (csd[2] \div 16) + 16 * csd[3] ELSE 0
        acD == IF doCsd THEN Accumulate(accs.dist, d12, 12) ELSE accs.dist
        r2  == IF doCsd
               THEN [r1 EXCEPT !.msg = Put(Put(@, S(20, 6), << spd % 256, spd \div 256 >>), S(20, 5), acD.a),
                               !.skip = @ \cup {S(20, 73)}]
               ELSE r1
        doCyc == Has(r2.msg, 20, 18)
        acC == IF doCyc THEN Accumulate(accs.cyc, r2.msg[S(20, 18)][1], 8) ELSE accs.cyc
        r3  == IF doCyc THEN [r2 EXCEPT !.msg = Put(@, S(20, 19), acC.a)]
               ELSE r2
        skPow == Skipped(r3, 20, 28)
        doPow == Has(r3.msg, 20, 28)
        acP == IF skPow THEN Taint(accs.pow) ELSE IF doPow THEN Accumulate(accs.pow, U16(r3.msg[S(20, 28)]), 16) ELSE accs.pow
        r4  == IF skPow THEN [r3 EXCEPT !.skip = @ \cup {S(20, 29)}]
               ELSE IF doPow THEN [r3 EXCEPT !.msg = Put(@, S(20, 29), acP.a),
                                        !.skip = @ \cup (IF acP.bad THEN {S(20, 29)} ELSE {})]
               ELSE r3
    IN  [r |-> r4, accs |-> [dist |-> acD, cyc |-> acC, pow |-> acP],
         raw |-> [csd |-> doCsd, d12 |-> d12, b2 |-> IF doCsd THEN csd[3] ELSE 0, b1 |-> IF doCsd THEN csd[2] ELSE 0,
                  cyc |-> doCyc, cycv |-> IF doCyc THEN r2.msg[S(20, 18)][1] ELSE 0,
                  pow |-> doPow, powv |-> IF doPow THEN U16(r3.msg[S(20, 28)]) ELSE 0]]

\* event (21): data16(2) -> data(3); data(3) -> by event(0):
\*   sport_point(33): score(7), opponent_score(8) (16 bits each)
\*   front/rear_gear_change(42, 43): rear_gear_num(11), rear_gear(12), front_gear_num(9), front_gear(10)
EventDests == {3, 7, 8, 9, 10, 11, 12}
ExpandEvent(r0, explicit) ==
    IF Skipped(r0, 21, 2) \/ Skipped(r0, 21, 3) THEN [r0 EXCEPT !.skip = @ \cup { S(21, n) : n \in EventDests }]
    ELSE
    LET r1 == IF Has(r0.msg, 21, 2)
              THEN [r0 EXCEPT !.msg = Put(@, S(21, 3), ZeroExt(@[S(21, 2)], 4))]
              ELSE r0
        hasD == Has(r1.msg, 21, 3)
        dv   == IF hasD THEN r1.msg[S(21, 3)] ELSE Zero4
        ev   == IF Has(r1.msg, 21, 0) THEN r1.msg[S(21, 0)][1] ELSE 255
        \* a destination byte equal to its type's invalid value reads as absent
        PutZ(msg, n, v, inv) == IF v = inv THEN Without(msg, S(21, n)) ELSE Put(msg, S(21, n), v)
        dests == IF ev = 33 THEN {7, 8} ELSE IF ev \in {42, 43} THEN {9, 10, 11, 12} ELSE {}
        r2   == IF ~hasD THEN r1
                ELSE IF ev = 33
                THEN [r1 EXCEPT !.msg = PutZ(PutZ(@, 7, << dv[1], dv[2] >>, << 255, 255 >>), 8, << dv[3], dv[4] >>, << 255, 255 >>)]
                ELSE IF ev \in {42, 43}
                THEN [r1 EXCEPT !.msg = PutZ(PutZ(PutZ(PutZ(@, 11, << dv[1] >>, << 0 >>), 12, << dv[2] >>, << 0 >>), 9, << dv[3] >>, << 0 >>), 10, << dv[4] >>, << 0 >>)]
                ELSE r1
    IN  r2

ComponentMsgs == {18, 19, 20, 21, 142}

---------------------------------------------------------------------------
(* Decoder state and step *)

\* mode: "full" | "fileid" (DecodeHeaderAndFileID) | "header" | "crc" (CheckIntegrity)
\* enc = TRUE: the bytes are the output of Encode and are compared with the
\* File that was encoded - no component expansion, local times by wall clock
InitDec(base, mode, enc) ==
    [ base |-> base, mode |-> mode, enc |-> enc, phase |-> "hdr", pos |-> base + 1, dend |-> 0, hdr |-> [st |-> "none"],
      defs |-> [l \in 0..15 |-> NoDef], ts |-> TsNone, accs |-> AccsZero,
      ftype |-> -1, fileid |-> << >>, fileidskip |-> {}, fileids |-> 0, creator |-> << >>, creatorskip |-> {}, hascreator |-> FALSE, tc |-> << >>, tcskip |-> {}, hastc |-> FALSE,
      cnt |-> << >>, single |-> << >>, unkm |-> << >>, unkf |-> << >>, nrec |-> 0,
      crc |-> 0, filecrc |-> 0,
      verdict |-> "run", why |-> "" ]

Stop(dec, v, why) == [dec EXCEPT !.verdict = v, !.why = why]

Bump(f, k) == IF k \in DOMAIN f THEN [f EXCEPT ![k] = @ + 1] ELSE (k :> 1) @@ f

NoOut == [kind |-> "none"]

\* Route a completed message of a known type; returns [dec, out]
Deliver(dec, d, r) ==
    LET m == d.m
        explicit == { d.flds[i].n : i \in DOMAIN d.flds }
        slot == Route(dec.ftype, m)
        expand == m \in ComponentMsgs /\ slot.m = m /\ ~dec.enc
        x == IF ~expand THEN [r |-> r, accs |-> dec.accs, raw |-> [csd |-> FALSE, cyc |-> FALSE, pow |-> FALSE]]
             ELSE IF m = 20 THEN ExpandRecord(r, explicit, dec.accs)
             ELSE IF m = 21 THEN [r |-> ExpandEvent(r, explicit), accs |-> dec.accs, raw |-> [csd |-> FALSE, cyc |-> FALSE, pow |-> FALSE]]
             ELSE [r |-> ApplyEnhance(m, r, explicit), accs |-> dec.accs, raw |-> [csd |-> FALSE, cyc |-> FALSE, pow |-> FALSE]]
        msg == x.r.msg
    IN
    IF m = MFileId THEN
        [dec |-> [dec EXCEPT !.fileid = msg, !.fileidskip = x.r.skip, !.fileids = @ + 1], out |-> NoOut]
    ELSE IF m = MFileCreator THEN [dec |-> [dec EXCEPT !.creator = msg, !.creatorskip = x.r.skip, !.hascreator = TRUE], out |-> NoOut]
    ELSE IF m = MTimestampCorrelation THEN [dec |-> [dec EXCEPT !.tc = msg, !.tcskip = x.r.skip, !.hastc = TRUE], out |-> NoOut]
    ELSE IF m \in CommonMsgs \/ slot.m # m THEN [dec |-> dec, out |-> NoOut]
    ELSE IF slot.list = 1 THEN
        LET c == Bump(dec.cnt, slot.name) IN
        [dec |-> [dec EXCEPT !.cnt = c, !.accs = x.accs],
         out |-> [kind |-> "msg", slot |-> slot.name, idx |-> c[slot.name], m |-> m, msg |-> msg, skip |-> x.r.skip, raw |-> x.raw]]
    ELSE
        [dec |-> [dec EXCEPT !.single = Put(@, slot.name, [m |-> m, msg |-> msg, skip |-> x.r.skip,
                                                          earlier |-> IF slot.name \in DOMAIN dec.single
                                                                      THEN Append(dec.single[slot.name].earlier, dec.single[slot.name].msg)
                                                                      ELSE << >>]),
                              !.accs = x.accs],
         out |-> [kind |-> "single", slot |-> slot.name, m |-> m, msg |-> msg, skip |-> x.r.skip, raw |-> x.raw]]

\* one protocol unit
Step(in, avail, dec) ==
    CASE dec.phase = "hdr" ->
           LET h == HeaderAt(in, dec.base, avail) IN
           IF h.st = "trunc" THEN [dec |-> Stop([dec EXCEPT !.hdr = h], "reject", IF h.got = 0 THEN "eof at file start" ELSE "truncated header"), out |-> NoOut]
           ELSE IF h.st = "either" THEN [dec |-> Stop([dec EXCEPT !.hdr = h], "either", h.why), out |-> NoOut]
           ELSE IF h.st = "reject" THEN [dec |-> Stop([dec EXCEPT !.hdr = h], "reject", h.why), out |-> NoOut]
           ELSE LET big == Hi(h.datasize) >= 16384
                    de  == IF big THEN 1073741824 ELSE dec.base + h.size + ToInt(h.datasize)
                    d1  == [dec EXCEPT !.hdr = h, !.pos = dec.base + h.size + 1, !.dend = de,
                                       !.crc = CrcRange(0, in, dec.base + 1, dec.base + h.size)]
                IN  IF dec.mode = "header" THEN [dec |-> Stop(d1, "accept", "header"), out |-> NoOut]
                    ELSE IF dec.mode = "crc" THEN [dec |-> [d1 EXCEPT !.phase = "scan"], out |-> NoOut]
                    ELSE [dec |-> [d1 EXCEPT !.phase = "fid_def"], out |-> NoOut]
      [] dec.phase = "scan" ->            \* CheckIntegrity: checksum only, 4096 bytes per step
           IF dec.pos > dec.dend THEN [dec |-> [dec EXCEPT !.phase = "crc"], out |-> NoOut]
           ELSE LET e == IF dec.pos + 4095 < dec.dend THEN dec.pos + 4095 ELSE dec.dend IN
                IF e > avail THEN [dec |-> Stop(dec, "reject", "truncated data"), out |-> NoOut]
                ELSE [dec |-> [dec EXCEPT !.pos = e + 1, !.crc = CrcRange(@, in, dec.pos, e)], out |-> NoOut]
      [] dec.phase = "crc" ->
           IF dec.dend + 2 > avail THEN [dec |-> Stop(dec, "reject", "truncated crc"), out |-> NoOut]
           ELSE LET c == CrcRange(dec.crc, in, dec.dend + 1, dec.dend + 2)
                    d1 == [dec EXCEPT !.filecrc = in[dec.dend + 1] + 256 * in[dec.dend + 2], !.pos = dec.dend + 3, !.phase = "end"]
                IN  IF c = 0 THEN [dec |-> Stop(d1, "accept", "complete"), out |-> NoOut]
                    ELSE [dec |-> Stop(d1, "reject", "file crc"), out |-> NoOut]
      [] dec.phase \in {"fid_def", "fid_data", "recs"} ->
           IF dec.pos > dec.dend THEN
               IF dec.phase = "recs" THEN [dec |-> [dec EXCEPT !.phase = "crc"], out |-> NoOut]
               ELSE [dec |-> Stop(dec, "either", "no file_id"), out |-> NoOut]
           ELSE IF dec.pos > avail THEN [dec |-> Stop(dec, "reject", "truncated record"), out |-> NoOut]
           ELSE
           LET h == in[dec.pos]  kind == RecKind(h) IN
           IF kind = "def" THEN
               IF dec.phase = "fid_data" THEN [dec |-> Stop(dec, "either", "file_id data expected"), out |-> NoOut]
               ELSE
               LET r == DefAt(in, dec.pos, avail) IN
               IF r.st = "trunc" THEN [dec |-> Stop(dec, "reject", "truncated record"), out |-> NoOut]
               ELSE IF dec.pos + r.len - 1 > dec.dend THEN [dec |-> Stop(dec, "either", "record crosses data size"), out |-> NoOut]
               ELSE IF r.st = "either" THEN [dec |-> Stop(dec, "either", r.why), out |-> NoOut]
               ELSE IF dec.phase = "fid_def" /\ r.def.m # MFileId THEN [dec |-> Stop(dec, "either", "first definition not file_id"), out |-> NoOut]
               ELSE [dec |-> [dec EXCEPT !.defs[r.local] = r.def, !.pos = @ + r.len,
                                         !.crc = CrcRange(@, in, dec.pos, dec.pos + r.len - 1),
                                         !.nrec = @ + 1,
                                         !.phase = IF @ = "fid_def" THEN "fid_data" ELSE @],
                     out |-> [kind |-> "def", local |-> r.local, def |-> r.def]]
           ELSE
               IF dec.phase = "fid_def" THEN [dec |-> Stop(dec, "either", "first record not a definition"), out |-> NoOut]
               ELSE IF dec.phase = "fid_data" /\ kind = "cdata" THEN [dec |-> Stop(dec, "either", "file_id data expected"), out |-> NoOut]
               ELSE IF kind = "data" /\ (h \div 16) % 4 # 0 THEN [dec |-> Stop(dec, "either", "reserved header bits"), out |-> NoOut]
               ELSE
               LET local == IF kind = "cdata" THEN (h \div 32) % 4 ELSE h % 16
                   d == dec.defs[local]
               IN
               IF d = NoDef THEN [dec |-> Stop(dec, "reject", "no definition for local type"), out |-> NoOut]
               ELSE
               LET r == DataAt(in, dec.pos, avail, d, IF kind = "cdata" THEN h % 32 ELSE -1, dec.ts, dec.enc) IN
               IF r.st = "trunc" THEN [dec |-> Stop(dec, "reject", "truncated record"), out |-> NoOut]
               ELSE IF dec.pos + r.len - 1 > dec.dend THEN [dec |-> Stop(dec, "either", "record crosses data size"), out |-> NoOut]
               ELSE
               LET d1 == [dec EXCEPT !.pos = @ + r.len, !.ts = r.ts, !.nrec = @ + 1,
                                     !.crc = CrcRange(@, in, dec.pos, dec.pos + r.len - 1),
                                     !.unkm = IF d.known THEN @ ELSE Bump(@, d.m),
                                     !.unkf = FoldLeft(LAMBDA f, n : Bump(f, << d.m, n >>), @, SetToSeq(d.unk))]
               IN
               IF ~d.known THEN [dec |-> d1, out |-> [kind |-> "unknown", m |-> d.m]]
               ELSE IF dec.phase = "fid_data" THEN
                   LET t == IF S(0, 0) \in DOMAIN r.msg THEN r.msg[S(0, 0)][1] ELSE 255
                       d2 == [d1 EXCEPT !.fileid = r.msg, !.fileidskip = r.skip, !.fileids = 1, !.ftype = t, !.phase = "recs"]
                   IN  IF d.m # MFileId THEN [dec |-> Stop(d1, "either", "second record not file_id"), out |-> NoOut]
                       ELSE IF dec.mode = "fileid" THEN [dec |-> Stop(d2, "accept", "file_id"), out |-> NoOut]
                       ELSE IF ~ValidFileType(t) THEN [dec |-> Stop(d2, "reject", "file type"), out |-> NoOut]
                       ELSE [dec |-> d2, out |-> NoOut]
               ELSE Deliver(d1, d, r)

\* Frame facts used for the final verdict: a frame that is incomplete in
\* the available bytes, or whose checksum is wrong, must be rejected
\* whatever else is odd about it.
FrameLenKnown(dec) == dec.hdr.st = "ok" /\ dec.dend < 1073741824
FrameEnd(dec) == dec.dend + 2
=============================================================================
