---------------------------- MODULE MC_Validator ----------------------------
EXTENDS Validator, FitProfile, SequencesExt

Unknown == [found |-> FALSE, b |-> 0, a |-> 0, k |-> 0]
Present == { [found |-> TRUE, b |-> FieldTab[m][n].b, a |-> FieldTab[m][n].a, k |-> FieldTab[m][n].k] :
               <<m, n>> \in UNION { { <<m, n>> : n \in DOMAIN FieldTab[m] } : m \in KnownMsgs } }
Classes == Present \cup {Unknown}
ClassSeq == SetToSeq(Classes)

\* all conceivable native classes, to say for which the theorem would fail
AllNative == { [found |-> TRUE, b |-> b, a |-> a, k |-> 0] : b \in 0..16, a \in {0, 1} }

Sound(cls) == \A b \in 0..255 : \A sz \in 0..255 : Validate(cls, b, sz) = "ok" => StoreSafe(cls, b, sz)

ASSUME \A cls \in Classes : Sound(cls)

\* premises about the compiled tables that the theorem relies on
ASSUME \A cls \in Present : cls.k \in {1, 2} => cls.b = 6
ASSUME \A cls \in Present : cls.k \in {3, 4} => cls.b = 5

\* verdict table, run-length encoded over the size
RECURSIVE Runs(_, _, _)
Runs(cls, b, from) ==
    IF from > 255 THEN << >>
    ELSE LET v == Expected(cls, b, from)
             RECURSIVE Upto(_)
             Upto(s) == IF s < 255 /\ Expected(cls, b, s + 1) = v THEN Upto(s + 1) ELSE s
             to == Upto(from)
         IN << << from, to, v >> >> \o Runs(cls, b, to + 1)

Table == [ c \in 1..Cardinality(Classes) |->
             LET cls == ClassSeq[c] IN
             [cls |-> cls, rows |-> [ b \in 1..256 |-> Runs(cls, b - 1, 0) ]] ]

Out == [ classes |-> Cardinality(Classes), evaluations |-> Cardinality(Classes) * 65536,
         unsound_hypothetical |-> SetToSeq({ c \in AllNative : ~Sound(c) /\ c \notin Present }),
         table |-> Table ]
ASSUME JsonSerialize("validator_out.json", Out)

VARIABLE dummy
Init == dummy = 0
Next == UNCHANGED dummy
=============================================================================
