CONSTANTS
  States <- Q_States
  ByteSet <- T_Bytes
  LinStates <- T_Lin
  MsgLen = 6
  Alphabet <- Q_Alpha
  BurstAligns <- T_Aligns
  OutFile = "crc_out.json"
INIT Init
NEXT Next
