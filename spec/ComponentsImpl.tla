--------------------------- MODULE ComponentsImpl ----------------------------
(***************************************************************************)
(* C18 (and the shared-state clause of C08 / C09) at model level:          *)
(* RecordMsg.expandComponents and accumu.go transcribed (Impl), against a  *)
(* restatement of the FIT component rules at token level (Contract):       *)
(*   speed              = low 12 bits of compressed_speed_distance         *)
(*   distance           = per file, the least value >= the previous one    *)
(*                        that is congruent to the 12-bit slice (mod 4096) *)
(*   total_cycles       = likewise from cycles, 8 bits                     *)
(*   accumulated_power  = likewise from compressed_accumulated_power, 16   *)
(*   enhanced_speed     = speed, when speed is carried                     *)
(* The code deviates in four recorded ways; each is a switch, so that the  *)
(* same module is the code as it is (all TRUE: what the replayed decodes   *)
(* must show, value for value) and the design the Contract asks for (all   *)
(* FALSE: TLC proves Impl = Contract on every explored sequence):          *)
(*   ByteShift  KF_ByteShiftTruncation  uint32(b[2] << 4): the shift is    *)
(*              done on a byte, the slice loses its top 4 bits             *)
(*   MaskZero   KF_AccumulatorMaskZero  new(uint32Accumulator) has mask 0: *)
(*              total_cycles / accumulated_power stay 0                    *)
(*   SharedAcc  KF_SharedAccumulators   the accumulators are package-level *)
(*              variables: they continue across files (and calls)          *)
(*   EnhBefore  not-a-fixpoint:m20.f73  enhanced_speed is copied from      *)
(*              speed before speed is derived from the compressed field    *)
(* A behaviour is a sequence of tokens: data records of one kind each, and *)
(* "file" (the next file of a chain begins).                               *)
(***************************************************************************)
EXTENDS Integers, Sequences, FiniteSets, TLC

CONSTANTS ByteShift, MaskZero, SharedAcc, EnhBefore

\* tokens: << kind, a, b >>; kinds: 0 file, 1 csd (a = 12-bit speed, b = 12-bit distance),
\* 2 cycles (a), 3 compressed_accumulated_power (a), 4 speed (a)
KFile == 0  KCsd == 1  KCyc == 2  KPow == 3  KSpd == 4
Absent == -1

CsdBytes(s, d) == << s % 256, (s \div 256) + 16 * (d % 16), d \div 16 >>
AllFF(b) == b = << 255, 255, 255 >>

---------------------------------------------------------------------------
(* Impl: accumu.go and expandComponents *)

AccZero == [a |-> 0, l |-> 0]
AccsZero == [d |-> AccZero, c |-> AccZero, p |-> AccZero]

\* a.accumuValue += (value - a.lastValue) & a.mask   (uint32 arithmetic; the
\* mask is 2^bits - 1, so the masked difference is the difference mod 2^bits)
AccumulateImpl(acc, v, bits, maskzero) ==
    LET M == 2 ^ bits
        diff == IF maskzero THEN 0 ELSE (((v - acc.l) % M) + M) % M
    IN  [a |-> acc.a + diff, l |-> v]

\* the 12-bit slice as the code computes it
DistSliceImpl(b) == IF ByteShift THEN (b[2] \div 16) + ((b[3] * 16) % 256)
                    ELSE (b[2] \div 16) + b[3] * 16

\* one data record: accumulators before -> [accs, out]
\* out: speed, dist, tc, ap, es (Absent when the field stays invalid)
NoOut == [speed |-> Absent, dist |-> Absent, tc |-> Absent, ap |-> Absent, es |-> Absent]
RecordImpl(accs, t) ==
    CASE t[1] = KCsd ->
           LET b == CsdBytes(t[2], t[3]) IN
           IF AllFF(b) THEN [accs |-> accs, out |-> NoOut]
           ELSE LET spd == b[1] + 256 * (b[2] % 16)
                    acd == AccumulateImpl(accs.d, DistSliceImpl(b), 12, FALSE)
                IN  [accs |-> [accs EXCEPT !.d = acd],
                     out |-> [NoOut EXCEPT !.speed = spd, !.dist = acd.a,
                                           !.es = IF EnhBefore THEN Absent ELSE spd]]
      [] t[1] = KCyc ->
           IF t[2] = 255 THEN [accs |-> accs, out |-> NoOut]
           ELSE LET ac == AccumulateImpl(accs.c, t[2], 8, MaskZero) IN
                [accs |-> [accs EXCEPT !.c = ac], out |-> [NoOut EXCEPT !.tc = ac.a]]
      [] t[1] = KPow ->
           IF t[2] = 65535 THEN [accs |-> accs, out |-> NoOut]
           ELSE LET ac == AccumulateImpl(accs.p, t[2], 16, MaskZero) IN
                [accs |-> [accs EXCEPT !.p = ac], out |-> [NoOut EXCEPT !.ap = ac.a]]
      [] t[1] = KSpd ->
           IF t[2] = 65535 THEN [accs |-> accs, out |-> NoOut]
           ELSE [accs |-> accs, out |-> [NoOut EXCEPT !.speed = t[2], !.es = t[2]]]

\* the whole behaviour: outputs of the data tokens, in order
RECURSIVE RunImpl(_, _, _, _)
RunImpl(hist, j, accs, outs) ==
    IF j > Len(hist) THEN outs
    ELSE IF hist[j][1] = KFile
         THEN RunImpl(hist, j + 1, IF SharedAcc THEN accs ELSE AccsZero, outs)
         ELSE LET r == RecordImpl(accs, hist[j]) IN RunImpl(hist, j + 1, r.accs, Append(outs, r.out))
ImplOuts(hist) == RunImpl(hist, 1, AccsZero, << >>)

---------------------------------------------------------------------------
(* Contract, stated without the accumulator: for the k-th record of a file *)
(* that carries the source, the destination is the least value >= the      *)
(* previous destination of that file (0 before the first) congruent to the *)
(* slice.                                                                  *)

Least(prev, raw, M) == LET b == prev - (prev % M) + raw IN IF b >= prev THEN b ELSE b + M

\* index of the first token of the file that token j belongs to
RECURSIVE FileStart(_, _)
FileStart(hist, j) == IF j = 0 THEN 1 ELSE IF hist[j][1] = KFile THEN j + 1 ELSE FileStart(hist, j - 1)

Carries(t, kind) ==
    CASE kind = KCsd -> t[1] = KCsd /\ ~AllFF(CsdBytes(t[2], t[3]))
      [] kind = KCyc -> t[1] = KCyc /\ t[2] # 255
      [] kind = KPow -> t[1] = KPow /\ t[2] # 65535
SliceOf(t) == IF t[1] = KCsd THEN t[3] ELSE t[2]
Modulus(kind) == IF kind = KCsd THEN 4096 ELSE IF kind = KCyc THEN 256 ELSE 65536

\* destination value of token j (which carries `kind`)
RECURSIVE DestFrom(_, _, _, _, _)
DestFrom(hist, i, j, kind, prev) ==
    IF i > j THEN prev
    ELSE DestFrom(hist, i + 1, j, kind, IF Carries(hist[i], kind) THEN Least(prev, SliceOf(hist[i]), Modulus(kind)) ELSE prev)
Dest(hist, j, kind) == DestFrom(hist, FileStart(hist, j), j, kind, 0)

ContractOut(hist, j) ==
    LET t == hist[j] IN
    CASE Carries(t, KCsd) -> [NoOut EXCEPT !.speed = t[2], !.dist = Dest(hist, j, KCsd), !.es = t[2]]
      [] Carries(t, KCyc) -> [NoOut EXCEPT !.tc = Dest(hist, j, KCyc)]
      [] Carries(t, KPow) -> [NoOut EXCEPT !.ap = Dest(hist, j, KPow)]
      [] t[1] = KSpd /\ t[2] # 65535 -> [NoOut EXCEPT !.speed = t[2], !.es = t[2]]
      [] OTHER -> NoOut

DataIdx(hist) == { j \in DOMAIN hist : hist[j][1] # KFile }
ContractOuts(hist) ==
    LET js == DataIdx(hist) IN
    [ i \in 1..Cardinality(js) |-> ContractOut(hist, CHOOSE x \in js : Cardinality({ y \in js : y < x }) = i - 1) ]

ImplMeetsContract(hist) == ImplOuts(hist) = ContractOuts(hist)
=============================================================================
