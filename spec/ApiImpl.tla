------------------------------ MODULE ApiImpl -------------------------------
(***************************************************************************)
(* Process level (C08, C09): goroutines calling Decode on inputs from a    *)
(* pool.  An input is a sequence of records; a record is either "plain"    *)
(* (its decoding touches only the call's own state) or an accumulating     *)
(* value v (record.distance / total_cycles / accumulated_power are the     *)
(* running sum of rollover-corrected deltas of v).                         *)
(*                                                                         *)
(* Contract (Api): the result of a call is Pure(input) - the accumulator   *)
(* starts at zero with every file - whatever was called before or runs     *)
(* concurrently, and no two concurrent calls touch common state (NoRace).  *)
(* Impl: with SharedAcc = TRUE the accumulator is the process-wide G that  *)
(* RecordMsg.expandComponents reads (Load) and writes (Store) without      *)
(* synchronisation; with SharedAcc = FALSE it is per call.                 *)
(***************************************************************************)
EXTENDS Integers, Sequences, FiniteSets, TLC

CONSTANTS Procs, Inputs, SharedAcc, MaxCalls, Bits

Plain == -1        \* a record whose decoding touches only the call's own state
Acc0 == [a |-> 0, l |-> 0]
Accumulate(acc, v) == [a |-> acc.a + ((v - acc.l) % (2 ^ Bits)), l |-> v]

RECURSIVE PureFrom(_, _, _)
PureFrom(recs, k, acc) ==
    IF k > Len(recs) THEN << >>
    ELSE IF recs[k] = Plain THEN << Plain >> \o PureFrom(recs, k + 1, acc)
    ELSE LET a2 == Accumulate(acc, recs[k]) IN << a2.a >> \o PureFrom(recs, k + 1, a2)
Pure(i) == PureFrom(Inputs[i], 1, Acc0)

VARIABLES G,        \* process-wide accumulator (used when SharedAcc)
          pc,       \* pc[p]: "idle" | "run" | "store"
          inp,      \* inp[p]: input being decoded
          pos,      \* pos[p]: next record
          lacc,     \* lacc[p]: the call's own accumulator (used when ~SharedAcc)
          tmp,      \* tmp[p]: value of G loaded by p
          out,      \* out[p]: result so far
          touched,  \* touched[p]: the running call has accessed G
          ncalls,   \* calls started
          hist,     \* schedule so far: << p, action >> (for replay into the real code)
          bad       \* set of << input, observed result >> that differ from Pure
vars == << G, pc, inp, pos, lacc, tmp, out, touched, ncalls, hist, bad >>

Init == /\ G = Acc0 /\ pc = [p \in Procs |-> "idle"] /\ inp = [p \in Procs |-> 0]
        /\ pos = [p \in Procs |-> 0] /\ lacc = [p \in Procs |-> Acc0] /\ tmp = [p \in Procs |-> Acc0]
        /\ out = [p \in Procs |-> << >>] /\ touched = [p \in Procs |-> FALSE]
        /\ ncalls = 0 /\ hist = << >> /\ bad = {}

Call(p, i) ==
    /\ pc[p] = "idle" /\ ncalls < MaxCalls
    /\ pc' = [pc EXCEPT ![p] = "run"] /\ inp' = [inp EXCEPT ![p] = i] /\ pos' = [pos EXCEPT ![p] = 1]
    /\ lacc' = [lacc EXCEPT ![p] = Acc0] /\ out' = [out EXCEPT ![p] = << >>]
    /\ touched' = [touched EXCEPT ![p] = FALSE]
    /\ ncalls' = ncalls + 1 /\ hist' = Append(hist, << p, "call", i >>)
    /\ UNCHANGED << G, tmp, bad >>

\* one record; an accumulating record under SharedAcc is Load then Store
Step(p) ==
    /\ pc[p] = "run" /\ pos[p] <= Len(Inputs[inp[p]])
    /\ LET r == Inputs[inp[p]][pos[p]] IN
       IF r = Plain THEN
            /\ out' = [out EXCEPT ![p] = Append(@, Plain)] /\ pos' = [pos EXCEPT ![p] = @ + 1]
            /\ UNCHANGED << G, pc, lacc, tmp, touched >>
       ELSE IF SharedAcc THEN          \* Load
            /\ tmp' = [tmp EXCEPT ![p] = G] /\ pc' = [pc EXCEPT ![p] = "store"]
            /\ touched' = [touched EXCEPT ![p] = TRUE]
            /\ UNCHANGED << G, lacc, out, pos >>
       ELSE LET a2 == Accumulate(lacc[p], r) IN
            /\ lacc' = [lacc EXCEPT ![p] = a2] /\ out' = [out EXCEPT ![p] = Append(@, a2.a)]
            /\ pos' = [pos EXCEPT ![p] = @ + 1]
            /\ UNCHANGED << G, pc, tmp, touched >>
    /\ hist' = Append(hist, << p, "step", pos[p] >>)
    /\ UNCHANGED << inp, ncalls, bad >>

Store(p) ==
    /\ pc[p] = "store"
    /\ LET a2 == Accumulate(tmp[p], Inputs[inp[p]][pos[p]]) IN
       /\ G' = a2 /\ out' = [out EXCEPT ![p] = Append(@, a2.a)]
    /\ pc' = [pc EXCEPT ![p] = "run"] /\ pos' = [pos EXCEPT ![p] = @ + 1]
    /\ hist' = Append(hist, << p, "store", pos[p] >>)
    /\ UNCHANGED << inp, lacc, tmp, touched, ncalls, bad >>

Return(p) ==
    /\ pc[p] = "run" /\ pos[p] > Len(Inputs[inp[p]])
    /\ pc' = [pc EXCEPT ![p] = "idle"]
    /\ bad' = IF out[p] = Pure(inp[p]) THEN bad ELSE bad \cup { << inp[p], out[p] >> }
    /\ touched' = [touched EXCEPT ![p] = FALSE]
    /\ hist' = Append(hist, << p, "return", inp[p] >>)
    /\ UNCHANGED << G, inp, pos, lacc, tmp, out, ncalls >>

Next == \E p \in Procs : (\E i \in DOMAIN Inputs : Call(p, i)) \/ Step(p) \/ Store(p) \/ Return(p)
Spec == Init /\ [][Next]_vars

\* Contract
ResultsPure == bad = {}
NoRace == \A p, q \in Procs : (p # q /\ pc[p] # "idle" /\ pc[q] # "idle") => ~(touched[p] /\ touched[q])

\* history / schedule as the only distinguishing part of a state is hidden from the fingerprint
View == << G, pc, inp, pos, lacc, tmp, out, touched, ncalls, bad >>
=============================================================================
