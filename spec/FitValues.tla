----------------------------- MODULE FitValues ------------------------------
(***************************************************************************)
(* Value semantics (Contract): the value a field's wire bytes denote in    *)
(* the profile slot, in the canonical byte form shared with the harness:   *)
(*   integers  little-endian bytes at the profile type's width, zero- or   *)
(*             sign-extended from the definition's width                   *)
(*   strings   the bytes before the first NUL                              *)
(*   arrays    concatenation of the elements (strings: each + NUL)         *)
(*   times     4 bytes LE seconds since the FIT epoch (instant) followed   *)
(*             by 8 bytes LE two's complement zone offset in seconds       *)
(*   coords    4 bytes LE two's complement semicircles                     *)
(* Absent   = the field holds its type's invalid value.                    *)
(* Unpinned = FIT gives the bytes no single meaning; nothing is compared.  *)
(***************************************************************************)
EXTENDS FitProfile

Absent   == << -1 >>
Unpinned == << -2 >>
WallOnly(lv) == << -3 >> \o lv     \* local time: only the wall-clock reading is pinned

\* Is a field definition (number n, size sz, base type byte b) of message m
\* compatible with the profile?  Compatible definitions MUST be accepted and
\* decoded to the denoted values; for the others the decoder may accept or
\* refuse (verdict Either).
CompatField(m, n, b, sz) ==
    IF ~NamedBase(b) THEN FALSE
    ELSE IF sz = 0 THEN b = 7 /\ (~HasField(m, n) \/ (PF(m, n).k = 0 /\ PF(m, n).b = 7))   \* an empty string field carries nothing
    ELSE LET i == IdxOf(b) IN
         IF ~HasField(m, n) THEN sz % SizeOf(i) = 0
         ELSE LET p == PF(m, n) IN
              CASE p.k \in {1, 2} -> b = 134 /\ sz = 4
                [] p.k \in {3, 4} -> b = 133 /\ sz = 4
                [] p.b = 7 -> b = 7
                [] b = 7 -> FALSE
                [] p.a = 1 -> i = p.b /\ sz % SizeOf(i) = 0
                [] OTHER -> \/ i = p.b /\ sz = SizeOf(i)
                            \/ /\ IntLike(i) /\ IntLike(p.b)
                               /\ SignedB(i) = SignedB(p.b)
                               /\ SizeOf(i) <= SizeOf(p.b)
                               /\ sz = SizeOf(i)

\* scalar native field: i = definition base index, p = profile entry
ScalarVal(p, i, raw, arch) ==
    LET le == Norm(raw, arch)
        w  == SizeOf(p.b)
        v  == IF SignedB(i) THEN SignExt(le, w) ELSE ZeroExt(le, w)
    IN  IF Len(le) < w /\ le = InvalidOf(i) THEN Unpinned   \* narrow type's own invalid value
        ELSE IF v = InvalidOf(p.b) THEN Absent ELSE v

RECURSIVE ElemsFrom(_, _, _, _)
ElemsFrom(raw, es, arch, j) ==
    IF j + es - 1 > Len(raw) THEN << >>
    ELSE Norm(SubSeq(raw, j, j + es - 1), arch) \o ElemsFrom(raw, es, arch, j + es)
ArrayVal(p, raw, arch) ==
    IF SizeOf(p.b) = 1 \/ arch = 0 THEN raw ELSE ElemsFrom(raw, SizeOf(p.b), arch, 1)

StringVal(raw) == LET s == UpToNul(raw) IN IF s = << >> THEN Absent ELSE s

\* string array: elements separated by NUL, up to the first empty element;
\* an unterminated tail is the last element
RECURSIVE SplitFrom(_, _)
SplitFrom(raw, j) ==
    IF j > Len(raw) THEN << >>
    ELSE LET e == NulAt(raw, j) IN
         IF e = j THEN << >>
         ELSE SubSeq(raw, j, e - 1) \o << 0 >> \o SplitFrom(raw, e + 1)
StrArrayVal(raw) == LET s == SplitFrom(raw, 1) IN IF s = << >> THEN Absent ELSE s

NativeVal(p, i, raw, arch) ==
    IF p.b = 7 THEN (IF p.a = 1 THEN StrArrayVal(raw) ELSE StringVal(raw))
    ELSE IF p.a = 1 THEN ArrayVal(p, raw, arch)
    ELSE ScalarVal(p, i, raw, arch)

Sentinel32 == << 255, 255, 255, 127 >>
\* latitude: the sentinel and everything outside +-90 degrees (+-2^30
\* semicircles) is invalid; exactly +-2^30 is left to the implementation.
LatVal(raw, arch) ==
    LET le == Norm(raw, arch)  hi == Hi(le)  lo == Lo(le) IN
    IF le = Sentinel32 THEN Absent
    ELSE IF lo = 0 /\ hi \in {16384, 49152} THEN Unpinned
    ELSE IF hi < 16384 \/ hi > 49152 \/ (hi = 49152 /\ lo > 0) THEN le
    ELSE Absent
LngVal(raw, arch) == LET le == Norm(raw, arch) IN IF le = Sentinel32 THEN Absent ELSE le

Zero8 == Fill(8, 0)
Ones4 == << 255, 255, 255, 255 >>
Zero4 == << 0, 0, 0, 0 >>
TimeVal(secs) == secs \o Zero8

\* observed vs specified field value
FieldEq(spec, obs) ==
    IF spec[1] = -3
    THEN /\ Len(obs) = 12
         /\ SubSeq(AddBytes(SubSeq(obs, 1, 4) \o Zero4, SubSeq(obs, 5, 12)), 1, 4) = SubSeq(spec, 2, 5)
    ELSE spec = obs
=============================================================================
