package main

import (
	"fmt"
	"os"
	"path/filepath"
	"sort"
	"strings"
	"sync"
)

// validateCalls runs Trace_Decode over batches of recorded calls, in
// parallel TLC processes, and returns the mismatch records (each carrying
// the call it belongs to).
type Mismatch struct {
	Call *Call
	Rec  map[string]interface{}
}

func (c *Ctx) validateCalls(p *Profile, sch *Schema, calls []*Call, par int) []Mismatch {
	if len(calls) == 0 {
		return nil
	}
	if par < 1 {
		par = 1
	}
	// batches balanced by input size
	type batch struct {
		calls []*Call
		size  int
	}
	nb := par
	if nb > len(calls) {
		nb = len(calls)
	}
	bs := make([]batch, nb)
	order := make([]*Call, len(calls))
	copy(order, calls)
	sort.SliceStable(order, func(i, j int) bool { return len(order[i].Input) > len(order[j].Input) })
	for _, cl := range order {
		k := 0
		for i := range bs {
			if bs[i].size < bs[k].size {
				k = i
			}
		}
		bs[k].calls = append(bs[k].calls, cl)
		bs[k].size += len(cl.Input) + 200
	}
	var mu sync.Mutex
	var out []Mismatch
	var wg sync.WaitGroup
	files := map[string][]byte{"profile.json": p.json(), "schema.json": sch.json()}
	var fail string
	for i := range bs {
		// the accumulator deviation model needs calls in recording order
		sort.SliceStable(bs[i].calls, func(a, b int) bool { return bs[i].calls[a].ID < bs[i].calls[b].ID })
		wg.Add(1)
		go func(b batch) {
			defer wg.Done()
			byID := map[int]*Call{}
			for _, cl := range b.calls {
				byID[cl.ID] = cl
			}
			mm, sum, err := c.validateTracesS("Trace_Decode", "TSpec", "Post", callsNDJSON(b.calls), files, 6)
			mu.Lock()
			defer mu.Unlock()
			for _, s := range sum {
				if cl := byID[int(s["trace"].(float64))]; cl != nil {
					cl.Final, _ = s["final"].(string)
					cl.Why, _ = s["why"].(string)
					cl.NRec = int(s["nrec"].(float64))
				}
			}
			if err != "" {
				fail = err
				return
			}
			for _, m := range mm {
				id := int(m["trace"].(float64))
				out = append(out, Mismatch{Call: byID[id], Rec: m})
			}
		}(bs[i])
	}
	wg.Wait()
	if fail != "" {
		c.die("%s", fail)
	}
	c.Traces += int64(len(calls))
	return out
}

func corpusFiles() []string {
	var out []string
	filepath.Walk(filepath.Join(repoDir, "testdata"), func(path string, info os.FileInfo, err error) error {
		if err == nil && !info.IsDir() && strings.HasSuffix(path, ".fit") {
			out = append(out, path)
		}
		return nil
	})
	sort.Strings(out)
	return out
}

// development aid: validate the corpus
func runCorpus(c *Ctx) {
	p := exportProfile()
	sch := exportSchema()
	var calls []*Call
	id := 0
	for _, f := range corpusFiles() {
		b, _ := os.ReadFile(f)
		if len(b) > 400000 && !c.thorough() {
			continue
		}
		id++
		api := "decode"
		if strings.Contains(f, "chained") {
			api = "chained"
		}
		cl := p.runCall(id, api, b, plain, CallOpts{UF: 1, UM: 1}, true)
		cl.Note = f
		calls = append(calls, cl)
	}
	mm := c.validateCalls(p, sch, calls, 12)
	for _, m := range mm {
		fmt.Printf("%s: %v\n", m.Call.Note, m.Rec)
	}
	for _, cl := range calls {
		fmt.Printf("%-70s %-8s %-28s nrec=%d err=%d %.50s\n", cl.Note, cl.Final, cl.Why, cl.NRec, cl.Ret.Err, cl.Ret.ErrText)
	}
	fmt.Println("calls", len(calls), "mismatches", len(mm), "states", c.States)
	c.cleanup()
}
