package main

import (
	"fmt"
	"os"
	"path/filepath"
	"sort"
	"strings"
	"sync"
	"time"
)

// validateCalls runs Trace_Decode over batches of recorded calls, in
// parallel TLC processes, and returns the mismatch records (each carrying
// the call it belongs to).
type Mismatch struct {
	Call *Call
	Rec  map[string]interface{}
}

func (c *Ctx) validateCalls(p *Profile, sch *Schema, calls []*Call, par int) []Mismatch {
	if len(calls) == 0 {
		return nil
	}
	if par < 1 {
		par = 1
	}
	// batches balanced by input size
	type batch struct {
		calls []*Call
		size  int
	}
	nb := par
	if nb > len(calls) {
		nb = len(calls)
	}
	bs := make([]batch, nb)
	order := make([]*Call, len(calls))
	copy(order, calls)
	sort.SliceStable(order, func(i, j int) bool { return len(order[i].Input) > len(order[j].Input) })
	for _, cl := range order {
		k := 0
		for i := range bs {
			if bs[i].size < bs[k].size {
				k = i
			}
		}
		bs[k].calls = append(bs[k].calls, cl)
		bs[k].size += len(cl.Input) + 200
	}
	var mu, big sync.Mutex
	var out []Mismatch
	var wg sync.WaitGroup
	files := map[string][]byte{"profile.json": p.json(), "schema.json": sch.json()}
	var fail string
	for i := range bs {
		// the accumulator deviation model needs calls in recording order
		sort.SliceStable(bs[i].calls, func(a, b int) bool { return bs[i].calls[a].ID < bs[i].calls[b].ID })
		wg.Add(1)
		go func(b batch) {
			defer wg.Done()
			byID := map[int]*Call{}
			for _, cl := range b.calls {
				byID[cl.ID] = cl
			}
			// memory: nb JVMs run at once; 14 x 3 GB stays well inside the machine,
			// a batch that does not fit is run again alone with a large heap
			heap := 6
			if nb > 6 {
				heap = 3
			}
			mm, sum, err := c.validateTracesS("Trace_Decode", "TSpec", "Post", callsNDJSON(b.calls), files, heap)
			if err != "" && (strings.Contains(err, "OutOfMemoryError") || strings.Contains(err, "GC overhead") || strings.Contains(err, "exit 137")) {
				big.Lock()
				mm, sum, err = c.validateTracesS("Trace_Decode", "TSpec", "Post", callsNDJSON(b.calls), files, 16)
				big.Unlock()
			}
			mu.Lock()
			defer mu.Unlock()
			for _, s := range sum {
				if cl := byID[int(s["trace"].(float64))]; cl != nil {
					cl.Final, _ = s["final"].(string)
					cl.Why, _ = s["why"].(string)
					cl.NRec = int(s["nrec"].(float64))
				}
			}
			if err != "" {
				fail = err
				return
			}
			for _, m := range mm {
				id := int(m["trace"].(float64))
				out = append(out, Mismatch{Call: byID[id], Rec: m})
			}
		}(bs[i])
	}
	wg.Wait()
	if fail != "" {
		c.die("%s", fail)
	}
	c.Traces += int64(len(calls))
	return out
}

func corpusFiles() []string {
	var out []string
	filepath.Walk(filepath.Join(repoDir, "testdata"), func(path string, info os.FileInfo, err error) error {
		if err == nil && !info.IsDir() && strings.HasSuffix(path, ".fit") {
			out = append(out, path)
		}
		return nil
	})
	sort.Strings(out)
	return out
}

// development aid: validate the corpus
func runCorpus(c *Ctx) {
	p := exportProfile()
	sch := exportSchema()
	var calls []*Call
	id := 0
	for _, f := range corpusFiles() {
		b, _ := os.ReadFile(f)
		if len(b) > 400000 && !c.thorough() {
			continue
		}
		id++
		api := "decode"
		if strings.Contains(f, "chained") {
			api = "chained"
		}
		cl := p.runCall(id, api, b, plain, CallOpts{UF: 1, UM: 1}, true)
		cl.Note = f
		calls = append(calls, cl)
	}
	mm := c.validateCalls(p, sch, calls, 12)
	for _, m := range mm {
		fmt.Printf("%s: %v\n", m.Call.Note, m.Rec)
	}
	for _, cl := range calls {
		fmt.Printf("%-70s %-8s %-28s nrec=%d err=%d %.50s\n", cl.Note, cl.Final, cl.Why, cl.NRec, cl.Ret.Err, cl.Ret.ErrText)
	}
	fmt.Println("calls", len(calls), "mismatches", len(mm), "states", c.States)
	c.cleanup()
}

// development aid: validate generated streams
func runGen(c *Ctx) {
	p := exportProfile()
	sch := exportSchema()
	rng := newRng(c.Seed)
	g := &generator{rng: rng, p: p, sch: sch, k: defaultKnobs()}
	var calls []*Call
	n := c.pick(300, 3000)
	for i := 0; i < n; i++ {
		s := g.Generate()
		calls = append(calls, p.runCall(i+1, "decode", s.Bytes(), plain, CallOpts{UF: 1, UM: 1}, true))
	}
	mm := c.validateCalls(p, sch, calls, 14)
	agg := map[string]int{}
	ex := map[string]Mismatch{}
	for _, m := range mm {
		k := fmt.Sprintf("%v m=%v s=%v kf=%v", m.Rec["what"], m.Rec["m"], m.Rec["s"], m.Rec["kf"])
		agg[k]++
		ex[k] = m
	}
	for k, v := range agg {
		fmt.Println(v, k, ex[k].Rec, ex[k].Call.Ret.ErrText)
		if os.Getenv("VERIF_EXPLAIN") != "" {
			mi, _ := ex[k].Rec["m"].(float64)
			ii, _ := ex[k].Rec["idx"].(float64)
			if ii == 0 {
				ii = 1
			}
			explainStream(p, ex[k].Call.raw, int(mi), int(ii))
		}
	}
	fin := map[string]int{}
	for _, cl := range calls {
		fin[cl.Final+":"+cl.Why]++
	}
	fmt.Println(fin)
	fmt.Println("calls", len(calls), "mismatches", len(mm), "states", c.States, "wall", time.Since(c.Start))
	c.cleanup()
}

// debugging aid: explain a stream record by record
func explainStream(p *Profile, b []byte, wantM, wantIdx int) {
	count := 0
	if len(b) < 12 {
		return
	}
	hs := int(b[0])
	pos := hs
	end := hs + int(uint32(b[4])|uint32(b[5])<<8|uint32(b[6])<<16|uint32(b[7])<<24)
	type dd struct {
		m    int
		arch byte
		f    []FieldDef
		dev  int
	}
	defs := map[int]*dd{}
	for pos < end && pos < len(b) {
		h := b[pos]
		switch {
		case h&0x80 != 0 || h&0x40 == 0:
			l := int(h & 0x0F)
			if h&0x80 != 0 {
				l = int(h>>5) & 3
			}
			d := defs[l]
			if d == nil {
				fmt.Printf("@%d data local %d: no def\n", pos, l)
				return
			}
			show := false
			if d.m == wantM {
				count++
				show = count == wantIdx
			}
			if show {
				fmt.Printf("@%d data hdr=%#x local %d m=%d arch=%d:", pos, h, l, d.m, d.arch)
			}
			q := pos + 1
			for _, f := range d.f {
				if q+int(f.Size) > len(b) {
					break
				}
				if show {
					fmt.Printf(" f%d[%#x/%d]=%v", f.Num, f.Base, f.Size, b[q:q+int(f.Size)])
				}
				q += int(f.Size)
			}
			if show {
				fmt.Printf(" dev=%d\n", d.dev)
			}
			pos = q + d.dev
		default:
			l := int(h & 0x0F)
			if pos+6 > len(b) {
				return
			}
			arch := b[pos+2]
			m := int(b[pos+3]) | int(b[pos+4])<<8
			if arch == 1 {
				m = int(b[pos+4]) | int(b[pos+3])<<8
			}
			nf := int(b[pos+5])
			d := &dd{m: m, arch: arch}
			q := pos + 6
			for i := 0; i < nf && q+3 <= len(b); i++ {
				d.f = append(d.f, FieldDef{b[q], b[q+1], b[q+2]})
				q += 3
			}
			if h&0x20 != 0 && q < len(b) {
				nd := int(b[q])
				q++
				for i := 0; i < nd && q+3 <= len(b); i++ {
					d.dev += int(b[q+1])
					q += 3
				}
			}
			defs[l] = d
			_ = l
			pos = q
		}
	}
}
