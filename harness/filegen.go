package main

import (
	"bytes"
	"encoding/binary"
	"fmt"
	"math/rand"
	"reflect"
	"time"

	"github.com/tormoder/fit"
)

// Files built through the public API with in-domain values (C06's domain):
// valid UTF-8 strings that fit, arrays no longer than the profile length,
// whole-second timestamps in range, valid coordinates.

type fileGen struct {
	rng     *rand.Rand
	p       *Profile
	density float64
	maxList int
	odd     bool // also values outside C06's domain: invalid UTF-8, over-long strings and arrays
	long    bool // over-long (but valid) strings and arrays only
}

func (g *fileGen) randUint(w int) uint64 {
	b := randomValue(g.rng, w)
	var v uint64
	for i := w - 1; i >= 0; i-- {
		v = v<<8 | uint64(b[i])
	}
	return v
}

func (g *fileGen) randString(max int) string {
	if max <= 0 {
		return ""
	}
	var out []byte
	n := 1 + g.rng.Intn(max)
	for len(out) < n {
		if r := g.rng.Intn(12); r <= 1 && len(out)+2 <= n {
			out = append(out, []byte(string(rune(0xE0+g.rng.Intn(30))))...)
		} else if r == 2 && len(out)+3 <= n {
			out = append(out, []byte(string(rune(0x20A0+g.rng.Intn(30))))...) // 3 bytes
		} else if r == 4 && len(out)+3 <= n {
			out = append(out, []byte("\ufffd")...) // the replacement character is a character like any other
		} else if r == 3 && len(out)+4 <= n {
			out = append(out, []byte(string(rune(0x1F600+g.rng.Intn(60))))...) // 4 bytes
		} else {
			out = append(out, byte('A'+g.rng.Intn(50)))
		}
	}
	return string(out)
}

func (g *fileGen) randTime(local bool) time.Time {
	secs := int64(1 + g.rng.Intn(0x7FFFFFF0))
	if g.rng.Intn(3) == 0 {
		secs = int64(0x80000000) + int64(g.rng.Intn(0x7FFFFFF0))
	}
	if g.rng.Intn(20) == 0 {
		secs = []int64{1, 2, 0x0FFFFFFF, 0x10000000, 0xFFFFFFFE}[g.rng.Intn(5)]
	}
	t := fitEpoch.Add(time.Duration(secs) * time.Second)
	if !local && g.rng.Intn(3) == 0 {
		// the same instant held in another location: a UTC field carries the instant, whatever the zone of the value
		t = t.In(time.FixedZone("", (g.rng.Intn(27)-12)*3600+g.rng.Intn(2)*1800))
	}
	if local {
		off := (g.rng.Intn(27) - 12) * 3600
		if g.rng.Intn(4) == 0 {
			off += 1800
		}
		// wall clock must stay in range
		if secs+int64(off) < 1 || secs+int64(off) > 0xFFFFFFFE {
			off = 0
		}
		// the zone's name carries no information: only its offset is encoded
		t = t.In(time.FixedZone([]string{"FITLOCAL", "", "CET", "UTC", "local"}[g.rng.Intn(5)], off))
	}
	return t
}

// setField puts an in-domain value into struct field fv (profile entry pf).
// skipped reports that the field kind is outside the encodable domain.
func (g *fileGen) setField(fv reflect.Value, pf *PField) (skipped bool) {
	switch fv.Type() {
	case timeType:
		fv.Set(reflect.ValueOf(g.randTime(pf.K == 2)))
		return
	case latType:
		v := int32(g.rng.Int63n(1<<31-2)) - (1<<30 - 1)
		if g.rng.Intn(5) == 0 {
			// the ends of the valid range (exactly -90 degrees, the last value below +90) and their neighbours
			v = []int32{-1 << 30, 1<<30 - 1, -1<<30 + 1, 1<<30 - 2, 0, -1, 1}[g.rng.Intn(7)]
		}
		fv.Set(reflect.ValueOf(fit.NewLatitude(v)))
		return
	case lngType:
		v := int32(g.rng.Uint32())
		if g.rng.Intn(5) == 0 {
			v = []int32{-1 << 31, 1<<31 - 2, -1<<31 + 1, 0, -1, 1}[g.rng.Intn(6)]
		}
		if v == 0x7FFFFFFF {
			v = 0
		}
		fv.Set(reflect.ValueOf(fit.NewLongitude(v)))
		return
	}
	switch fv.Kind() {
	case reflect.String:
		if g.long && g.rng.Intn(2) == 0 {
			fv.SetString(g.randString(pf.L + 10))
			return
		}
		if g.odd && g.rng.Intn(3) == 0 {
			switch g.rng.Intn(3) {
			case 0:
				fv.SetString("ab\xff\xfecd") // not UTF-8
			case 1:
				fv.SetString(g.randString(pf.L + 10)) // longer than the field
			default:
				fv.SetString("\xc3") // truncated character
			}
			return
		}
		if pf.L <= 1 {
			return true
		}
		fv.SetString(g.randString(pf.L - 1))
	case reflect.Slice:
		if fv.Type().Elem().Kind() == reflect.String {
			return true
		}
		n := 1 + g.rng.Intn(pf.L)
		if (g.odd || g.long) && g.rng.Intn(4) == 0 {
			n = pf.L + 1 + g.rng.Intn(3)
		}
		sl := reflect.MakeSlice(fv.Type(), n, n)
		for i := 0; i < n; i++ {
			e := sl.Index(i)
			switch e.Kind() {
			case reflect.Uint8, reflect.Uint16, reflect.Uint32, reflect.Uint64:
				e.SetUint(g.randUint(int(e.Type().Size())))
			case reflect.Int8, reflect.Int16, reflect.Int32, reflect.Int64:
				e.SetInt(int64(g.randUint(int(e.Type().Size()))))
			case reflect.Float32, reflect.Float64:
				e.SetFloat(float64(g.rng.Intn(1000)))
			}
		}
		fv.Set(sl)
	case reflect.Uint8, reflect.Uint16, reflect.Uint32, reflect.Uint64:
		fv.SetUint(g.randUint(int(fv.Type().Size())))
	case reflect.Int8, reflect.Int16, reflect.Int32, reflect.Int64:
		w := int(fv.Type().Size())
		v := g.randUint(w)
		shift := uint(64 - 8*w)
		fv.SetInt(int64(v<<shift) >> shift)
	case reflect.Float32, reflect.Float64:
		fv.SetFloat(float64(g.rng.Intn(100000)) / 8)
	default:
		return true
	}
	return false
}

func (g *fileGen) fillMsg(v reflect.Value, m int, only int) {
	for i := 0; i < v.NumField(); i++ {
		pf := g.p.bySindex(m, i)
		if pf == nil {
			continue
		}
		if m == 0 && pf.N == 0 {
			continue // file_id.type selects the container
		}
		if only >= 0 {
			if i == only {
				g.setField(v.Field(i), pf)
			}
			continue
		}
		if g.rng.Float64() < g.density {
			g.setField(v.Field(i), pf)
		}
	}
}

func (g *fileGen) newMsg(m int, only int) reflect.Value {
	v := fit.VerifNewMesg(fit.MesgNum(m)) // all-invalid struct value
	pv := reflect.New(v.Type())
	pv.Elem().Set(v)
	g.fillMsg(pv.Elem(), m, only)
	return pv
}

// File builds a random File of type ft.
func (g *fileGen) File(ft int, hdrCRC bool, onlyM, onlyS int) *fit.File {
	pv := []fit.ProtocolVersion{fit.V10, fit.V20}[g.rng.Intn(2)]
	f, err := fit.NewFile(fit.FileType(ft), fit.NewHeader(pv, hdrCRC))
	if err != nil {
		panic(err)
	}
	// NewFile leaves FileId with Go zero values (time_created = year 1, which
	// is outside the FIT range): start from the all-invalid constructor.
	id := fit.NewFileIdMsg()
	id.Type = fit.FileType(ft)
	f.FileId = *id
	g.fillMsg(reflect.ValueOf(&f.FileId).Elem(), 0, -1)
	if g.rng.Intn(3) == 0 {
		f.FileCreator = g.newMsg(49, -1).Interface().(*fit.FileCreatorMsg)
	}
	if g.rng.Intn(4) == 0 {
		f.TimestampCorrelation = g.newMsg(162, -1).Interface().(*fit.TimestampCorrelationMsg)
	}
	c, _ := container(f)
	cv := reflect.ValueOf(c).Elem()
	for i := 0; i < cv.NumField(); i++ {
		fv := cv.Field(i)
		et := fv.Type()
		list := false
		if et.Kind() == reflect.Slice {
			list = true
			et = et.Elem()
		}
		m := int(fit.VerifGlobalMesgNum(et.Elem()))
		only := -1
		if onlyM >= 0 {
			if m != onlyM {
				continue
			}
			only = onlyS
		}
		if list {
			n := g.rng.Intn(g.maxList + 1)
			if onlyM >= 0 {
				n = 1 + g.rng.Intn(2)
			}
			for k := 0; k < n; k++ {
				fv.Set(reflect.Append(fv, g.newMsg(m, only)))
			}
		} else if g.rng.Intn(3) > 0 || onlyM >= 0 {
			fv.Set(g.newMsg(m, only))
		}
	}
	return f
}

type PostProj struct {
	Hdr HdrProj `json:"hdr"`
	CRC int     `json:"crc"`
}

// runEncode records one Encode call: the File before (projection), the bytes
// written, the File's header/CRC fields afterwards.
func (p *Profile) runEncode(id int, f *fit.File, arch binary.ByteOrder) (cl *Call, out []byte) {
	cl = &Call{ID: id, API: "encode", Reads: [][]int{}, Reset: 1}
	cl.Ret.Files = []*FileProj{p.projFile(f)}
	cl.Ret.Hdr = []HdrProj{}
	cl.Ret.FileId = []*MsgProj{}
	var buf bytes.Buffer
	func() {
		defer func() {
			if x := recover(); x != nil {
				cl.Ret.Panic = 1
				cl.Ret.PanicMsg = fmt.Sprint(x)
			}
		}()
		if err := fit.Encode(&buf, f, arch); err != nil {
			cl.Ret.Err = 1
			cl.Ret.ErrText = err.Error()
		}
	}()
	out = buf.Bytes()
	cl.Input = toInts(out)
	cl.raw = out
	cl.Avail = len(out)
	cl.Post = &PostProj{Hdr: projHeader(f.Header), CRC: int(f.CRC)}
	if arch == binary.BigEndian {
		cl.Note = "big-endian"
	} else {
		cl.Note = "little-endian"
	}
	return cl, out
}
