package main

import (
	"bytes"
	"encoding/binary"
	"fmt"
	"strings"
	"sync"
	"sync/atomic"
	"time"

	"github.com/tormoder/fit"
)

func rejects(b []byte) (dec, integ, panicked bool) {
	defer func() {
		if recover() != nil {
			panicked = true
		}
	}()
	_, e1 := fit.Decode(bytes.NewReader(b))
	e2 := fit.CheckIntegrity(bytes.NewReader(b), false)
	return e1 != nil, e2 != nil, false
}

// burstSweep corrupts runs of at most 16 contiguous bits outside the size
// byte and the data-size field and requires Decode and CheckIntegrity to
// reject. allPatterns: every pattern; else a structured subset.
func burstSweep(c *Ctx, b []byte, allPatterns bool, seed int64) (tested int64) {
	nbits := len(b) * 8
	type job struct{ start int }
	jobs := make(chan int, 256)
	var wg sync.WaitGroup
	var count int64
	var mu sync.Mutex
	rng := newRng(seed)
	randPats := make([]uint32, 8)
	for i := range randPats {
		randPats[i] = uint32(rng.Intn(65535)) + 1
	}
	worker := func() {
		defer wg.Done()
		buf := make([]byte, len(b))
		for start := range jobs {
			var pats []uint32
			if allPatterns {
				for p := uint32(1); p < 65536; p += 2 { // bit 0 set: the burst starts at `start`
					pats = append(pats, p)
				}
			} else {
				pats = []uint32{1, 3, 0xFFFF, 0x8001, 0x0101, 0x5555}
				for _, r := range randPats {
					pats = append(pats, r|1)
				}
				// patterns that clear / set the 16-bit word starting here
				if start%8 == 0 && start/8+1 < len(b) {
					w := uint32(b[start/8]) | uint32(b[start/8+1])<<8
					if w != 0 {
						pats = append(pats, w) // word becomes 0x0000 (may not start at bit 0 of the burst: fine, span <= 16)
					}
					if w != 0xFFFF {
						pats = append(pats, w^0xFFFF)
					}
				}
			}
			for _, p := range pats {
				// span check: highest set bit of p relative to start must stay inside the file
				hi := 0
				for k := 15; k >= 0; k-- {
					if p&(1<<uint(k)) != 0 {
						hi = k
						break
					}
				}
				if start+hi >= nbits {
					continue
				}
				// protected: byte 0 (bits 0..7) and bytes 4..7 (bits 32..63)
				touch := false
				for k := 0; k <= hi; k++ {
					if p&(1<<uint(k)) == 0 {
						continue
					}
					bit := start + k
					if bit < 8 || (bit >= 32 && bit < 64) {
						touch = true
						break
					}
				}
				if touch {
					continue
				}
				copy(buf, b)
				for k := 0; k <= hi; k++ {
					if p&(1<<uint(k)) != 0 {
						bit := start + k
						buf[bit/8] ^= 1 << uint(bit%8)
					}
				}
				d, i, pn := rejects(buf)
				atomic.AddInt64(&count, 1)
				if !d || !i || pn {
					mu.Lock()
					c.report(fmt.Sprintf("burst-accepted:decode=%v,integrity=%v,panic=%v", !d, !i, pn),
						fmt.Sprintf("a burst of <= 16 bits (pattern %#x at bit %d) in a valid %d-byte file is not rejected: Decode error=%v CheckIntegrity error=%v panic=%v", p, start, len(b), d, i, pn),
						map[string]interface{}{"file": toInts(b), "bit": start, "pattern": p, "corrupted": toInts(buf)})
					mu.Unlock()
				}
			}
		}
	}
	for w := 0; w < 16; w++ {
		wg.Add(1)
		go worker()
	}
	for s := 8; s < nbits; s++ {
		jobs <- s
	}
	close(jobs)
	wg.Wait()
	return count
}

// C04: corruption is detected; CRC verdicts are sound and agree across entry points.
func runC04(c *Ctx) {
	p := exportProfile()
	sch := exportSchema()
	c.Level = "model_checking"
	c.Assume = []string{
		"TLC lemmas (MC_Crc16): residue, linearity, every non-zero error pattern of span <= 16 bits at each bit alignment has a non-zero CRC, and a non-zero register stays non-zero under further bytes; together: a burst of <= 16 bits anywhere in a frame changes the residue, so the expected verdict of the sweep is the constant \"error\"",
		"the burst sweep runs natively against the real code (TLC supplies the oracle, not the enumeration); a sample of corrupted files is additionally validated event by event by TLC",
		"Header.CheckIntegrity is exercised for header sizes 12 and 14 only (the method indexes 14 bytes of a size-long buffer)",
	}
	// 1. lemmas
	slices := 1
	cfg := "CONSTANTS\n States <- SliceStates\n SliceLo = 0\n SliceHi = 255\n ByteSet <- Q_Bytes\n LinStates <- %s\n MsgLen = %d\n Alphabet <- Q_Alpha\n BurstAligns <- %s\n OutFile = \"crc_out.json\"\nINIT Init\nNEXT Next\n"
	_ = slices
	lin, ml, al := "Q_Lin", 4, "T_Aligns"
	if c.thorough() {
		lin, ml = "T_Lin", 6
	}
	r := c.runTLC(TLCRun{Module: "MC_Crc16", Cfg: fmt.Sprintf(cfg, lin, ml, al), Workers: 1, HeapGB: 3, Timeout: 20 * time.Minute})
	if r.Exit != 0 {
		if strings.Contains(r.Out, "Assumption") && strings.Contains(r.Out, "is false") {
			c.report("crc16-lemma", "TLC: a Crc16 lemma is false:\n"+c.tlcTail(r), nil)
		} else {
			c.die("TLC MC_Crc16 exit %d\n%s", r.Exit, c.tlcTail(r))
		}
	}
	c.account(r)
	c.Cov["tlc_burst_windows"] = 8 * 65535
	headerModel(c)
	headerConformance(c)

	rng := newRng(c.Seed)
	pool := validPool(p, sch, rng, c.pick(900, 3000), c.pick(6, 20))
	encs := encodeSamples(rng, c.pick(12, 60))
	for i, b := range encs {
		// "a file that Encode produced passes CheckIntegrity" (and Decode), in both byte orders
		d, ig, pn := rejects(b)
		if d || ig || pn {
			c.report(fmt.Sprintf("encode-output-rejected:decode=%v,integrity=%v,panic=%v", d, ig, pn),
				fmt.Sprintf("Encode succeeded but its output (sample %d, %d bytes, architecture byte %d) is rejected: Decode error=%v CheckIntegrity error=%v panic=%v", i, len(b), archByteOf(b), d, ig, pn),
				map[string]interface{}{"file": toInts(b)})
		}
	}
	// a file larger than any 16-bit length: Encode hashes its whole data section in one go
	{
		h := fit.NewHeader(fit.V20, true)
		f, _ := fit.NewFile(fit.FileTypeActivity, h)
		f.FileId.Manufacturer = fit.ManufacturerDevelopment
		a, _ := f.Activity()
		for k := 0; k < 9000; k++ {
			r := fit.NewRecordMsg()
			r.Timestamp = time.Unix(1500000000+int64(k), 0).UTC()
			r.HeartRate = uint8(60 + k%100)
			r.Power = uint16(k % 1000)
			a.Records = append(a.Records, r)
		}
		for _, arch := range []binary.ByteOrder{binary.LittleEndian, binary.BigEndian} {
			var buf bytes.Buffer
			if err := fit.Encode(&buf, f, arch); err == nil {
				d, ig, pn := rejects(buf.Bytes())
				if d || ig || pn {
					c.report(fmt.Sprintf("encode-output-rejected:large:decode=%v,integrity=%v,panic=%v", d, ig, pn),
						fmt.Sprintf("Encode succeeded but its output (9000 records, %d bytes) is rejected: Decode error=%v CheckIntegrity error=%v panic=%v", buf.Len(), d, ig, pn), nil)
				}
			}
		}
	}
	c.Cov["encode_outputs_checked"] = len(encs) + 2
	pool = append(pool, encs...)

	// 2. burst sweep
	var tested int64
	exhaustiveFiles := 0
	for _, b := range pool {
		all := c.thorough() && len(b) <= 96 && exhaustiveFiles < 2
		if all {
			exhaustiveFiles++
		}
		tested += burstSweep(c, b, all, c.Seed)
	}
	c.Cov["bursts_tested"] = tested
	c.Cov["files_swept_with_all_patterns"] = exhaustiveFiles

	// 3. trace-validated part: valid files pass CheckIntegrity; header
	//    matrix across the four header-checking APIs; sample of corruptions
	var calls []*Call
	id := 0
	run := func(api string, b []byte, note string) {
		id++
		cl := p.runCall(id, api, b, plain, CallOpts{}, true)
		cl.Note = note
		calls = append(calls, cl)
	}
	for i, b := range pool {
		run("integrity", b, fmt.Sprintf("valid file %d", i))
		run("decode", b, fmt.Sprintf("valid file %d", i))
		// the same verdicts however the reader chunks its answers (the
		// CRC-only path and the buffered path feed the checksum differently)
		for k := 0; k < c.pick(2, 6); k++ {
			rs := readScript{chunks: chunkScripts[1+rng.Intn(len(chunkScripts)-1)], cut: -1, fault: -1, withEOF: rng.Intn(2) == 0}
			for _, api := range []string{"integrity", "decode", "integrity_hdr"} {
				id++
				cl := p.runCall(id, api, b, rs, CallOpts{}, true)
				cl.Note = fmt.Sprintf("valid file %d, reads chunked %v", i, rs.chunks)
				calls = append(calls, cl)
			}
		}
		for k := 0; k < c.pick(3, 20); k++ {
			bb := append([]byte{}, b...)
			bit := 8 + rng.Intn(len(bb)*8-8)
			if bit >= 32 && bit < 64 {
				bit += 32
			}
			bb[bit/8] ^= 1 << uint(bit%8)
			run("integrity", bb, fmt.Sprintf("file %d, bit %d flipped", i, bit))
			run("decode", bb, fmt.Sprintf("file %d, bit %d flipped", i, bit))
			// a corrupted file is rejected under every option set, too
			id++
			oc := p.runCall(id, "decode", bb, plain, CallOpts{UF: 1, UM: k % 2, Log: (k / 2) % 2}, true)
			oc.Note = fmt.Sprintf("file %d, bit %d flipped, decode options", i, bit)
			calls = append(calls, oc)
		}
	}
	// a valid file cut between two records (nothing of it is malformed, only the
	// rest and the CRC are missing): Decode and CheckIntegrity must agree that it is not a file
	for i, b := range pool {
		if i%3 != 0 || len(b) > 4000 {
			continue
		}
		ends := recordBoundaries(b)
		for k := 0; k < 3 && len(ends) > 3; k++ {
			cut := ends[1+rng.Intn(len(ends)-2)]
			if cut >= len(b)-2 {
				continue
			}
			run("decode", b[:cut], fmt.Sprintf("valid file %d cut at the record boundary %d", i, cut))
			run("integrity", b[:cut], fmt.Sprintf("valid file %d cut at the record boundary %d", i, cut))
		}
	}
	// header matrix: a valid body behind header variants, file CRC recomputed
	body := pool[0]
	hs0 := int(body[0])
	data := body[hs0 : len(body)-2]
	nvariants := 0
	for _, size := range []int{12, 14} {
		for _, proto := range headerProtos(c) {
			for _, dt := range [][]byte{[]byte(".FIT"), []byte(".FIS"), []byte("xFIT")} {
				base := []byte{byte(size), byte(proto), byte(rng.Intn(256)), byte(rng.Intn(256)), byte(len(data)), byte(len(data) >> 8), byte(len(data) >> 16), 0}
				base = append(base, dt...)
				var crcs []int
				if size == 14 {
					good := int(crc16(base))
					crcs = []int{0, good, good ^ 1, good ^ 0x8000, good ^ 0x0100, (good + 1) & 0xFFFF, rng.Intn(65536), 0xFFFF, 0x0001, 0xFF00}
					if c.thorough() {
						for bit := 0; bit < 16; bit++ {
							crcs = append(crcs, good^(1<<uint(bit)))
						}
					}
				} else {
					crcs = []int{-1}
				}
				for _, cr := range crcs {
					variants := [][]byte{append([]byte{}, base...)}
					if size == 14 && cr > 0 {
						// corrupt one covered header byte while keeping the stored CRC
						for _, idx := range []int{1, 2, 3, 8, 11} {
							v := append([]byte{}, base...)
							v[idx] ^= byte(1 << uint(rng.Intn(8)))
							variants = append(variants, v)
						}
					}
					for _, hv := range variants {
						h := append([]byte{}, hv...)
						if size == 14 {
							h = append(h, byte(cr), byte(cr>>8))
						}
						file := append(append([]byte{}, h...), data...)
						fc := crc16(file)
						file = append(file, byte(fc), byte(fc>>8))
						nvariants++
						for _, api := range []string{"header", "integrity_hdr", "integrity", "decode"} {
							run(api, file, fmt.Sprintf("header variant size=%d proto=%#x type=%q crc=%#x", size, proto, hv[8:12], cr))
						}
						run("header_method", h, fmt.Sprintf("Header.CheckIntegrity size=%d proto=%#x type=%q crc=%#x", size, proto, hv[8:12], cr))
					}
				}
			}
		}
	}
	mm := c.validateCalls(p, sch, calls, 14)
	c.reportFamily(p, mm, func(m Mismatch) bool {
		// every verdict disagreement on these inputs is about integrity checking
		return str(m.Rec["what"]) == "verdict" || str(m.Rec["what"]) == "returned header"
	})
	c.verdictStats(calls)
	c.Cov["header_variants"] = nvariants
	c.Cov["evaluations"] = tested + int64(len(calls))
	c.Cov["distinct_nontrivial"] = tested + int64(nvariants)
	c.Cov["rule"] = "bursts: valid files x every start bit outside byte 0 and bytes 4..7 x patterns (all odd 16-bit patterns for up to two short files in the thorough tier; else 1 bit, 2 adjacent, 16 ones, 3 structured, 8 seeded, and the patterns clearing / setting the 16-bit word); header matrix: sizes 12/14 x protocol bytes x data types x stored CRC {0, correct, corrupted, random} x corrupted covered bytes, through DecodeHeader, CheckIntegrity (both modes), Decode and Header.CheckIntegrity"
	c.sample(map[string]interface{}{"kind": "header variant call", "note": calls[len(calls)-1].Note, "err": calls[len(calls)-1].Ret.Err, "contract": calls[len(calls)-1].Final + ": " + calls[len(calls)-1].Why})
	c.finish()
}

// archByteOf: architecture byte of the first definition record of a file
func archByteOf(b []byte) int {
	if len(b) > int(b[0])+2 {
		return int(b[int(b[0])+2])
	}
	return -1
}

func headerProtos(c *Ctx) []int {
	if c.thorough() {
		out := make([]int, 256)
		for i := range out {
			out[i] = i
		}
		return out
	}
	return []int{0x00, 0x10, 0x1F, 0x20, 0x2F, 0x30, 0x80, 0xFF}
}
