package main

import (
	"fmt"
	"io"
	"os"
	"sort"
	"time"
)

// recordBoundaries returns the absolute end offsets of the records of a valid file.
func recordBoundaries(b []byte) []int {
	if len(b) < 14 {
		return nil
	}
	pos := int(b[0])
	end := pos + int(uint32(b[4])|uint32(b[5])<<8|uint32(b[6])<<16|uint32(b[7])<<24)
	if end+2 > len(b) {
		return nil
	}
	var out []int
	dlen := map[int]int{}
	for pos < end {
		h := b[pos]
		if h&0x80 != 0 || h&0x40 == 0 {
			l := int(h & 0x0F)
			if h&0x80 != 0 {
				l = int(h>>5) & 3
			}
			n, ok := dlen[l]
			if !ok {
				return out
			}
			pos += 1 + n
		} else {
			if pos+6 > end {
				return out
			}
			nf := int(b[pos+5])
			q := pos + 6 + 3*nf
			total := 0
			for i := 0; i < nf; i++ {
				total += int(b[pos+7+3*i])
			}
			if h&0x20 != 0 && q < end {
				nd := int(b[q])
				for i := 0; i < nd && q+2+3*i < end; i++ {
					total += int(b[q+2+3*i])
				}
				q += 1 + 3*nd
			}
			dlen[int(h&0x0F)] = total
			pos = q
		}
		out = append(out, pos)
	}
	return out
}

// interestingOffsets: header, record boundaries +-1, buffer boundaries +-1,
// CRC bytes, and a seeded sample.
func interestingOffsets(c *Ctx, b []byte, extra int) []int {
	set := map[int]bool{}
	add := func(x int) {
		if x >= 0 && x <= len(b) {
			set[x] = true
		}
	}
	// every file of a chain: its header bytes, its record boundaries, its CRC
	for start := 0; start+14 <= len(b); {
		m := b[start:]
		for i := 0; i <= 15; i++ {
			add(start + i)
		}
		for _, e := range recordBoundaries(m) {
			add(start + e - 1)
			add(start + e)
			add(start + e + 1)
		}
		hs := int(m[0])
		flen := hs + int(uint32(m[4])|uint32(m[5])<<8|uint32(m[6])<<16|uint32(m[7])<<24) + 2
		if (hs != 12 && hs != 14) || flen <= 0 || start+flen > len(b) {
			break
		}
		for i := 0; i < 4; i++ {
			add(start + flen - i)
		}
		start += flen
	}
	for k := 4096; k < len(b); k += 4096 {
		hs := int(b[0])
		add(hs + k - 1)
		add(hs + k)
		add(hs + k + 1)
	}
	for i := 0; i < 4; i++ {
		add(len(b) - i)
	}
	rng := newRng(c.Seed + int64(len(b)))
	for i := 0; i < extra; i++ {
		add(rng.Intn(len(b) + 1))
	}
	var out []int
	for k := range set {
		out = append(out, k)
	}
	sort.Ints(out)
	return out
}

// C11: truncation and read faults never yield silent success.
func runC11(c *Ctx) {
	p := exportProfile()
	sch := exportSchema()
	c.Assume = []string{
		"FrameImpl (TLC, exhaustive over every cut and fault point and every chunking of small chains) satisfies TruncationIsError, FaultIsError, PartialContent and the chain rule",
		"Contract for recorded calls: FitRef walks the bytes that were readable; truncated header / record / CRC, or a fault anywhere, must be an error, except a clean end of input exactly on a file boundary of a chain after at least one file; slot counts of the returned files must equal the records complete before the cut",
	}
	frameMC(c)
	rng := newRng(c.Seed)
	pool := validPool(p, sch, rng, c.pick(900, 2500), c.pick(8, 16))
	// chains of two and three
	var streams [][]byte
	streams = append(streams, pool...)
	for i := 0; i < c.pick(6, 12); i++ {
		a, b := pool[rng.Intn(len(pool))], pool[rng.Intn(len(pool))]
		ch := append(append([]byte{}, a...), b...)
		if i%3 == 0 {
			ch = append(ch, pool[rng.Intn(len(pool))]...)
		}
		if len(ch) < c.pick(12000, 5000) {
			streams = append(streams, ch)
		}
	}
	// messages whose last field occupies no bytes (a string field of size 0):
	// the message is complete when its last byte has been read, whatever the
	// reader does next
	for k := 0; k < 2; k++ {
		arch := byte(k)
		s := newStream(12, false)
		s.FileId(0, arch, 4)
		s.Def(1, arch, 23, []FieldDef{{253, 4, 0x86}, {2, 2, 0x84}, {27, 0, 7}}, nil)
		s.Def(2, arch, 20, []FieldDef{{253, 4, 0x86}, {3, 1, 2}}, nil)
		for r := 0; r < 3; r++ {
			s.Data(1, append(wire(u32le(0x39100000+uint32(r)), arch), wire(u16le(uint16(1+r)), arch)...))
			s.Data(2, append(wire(u32le(0x39100010+uint32(r)), arch), byte(100+r)))
		}
		s.Def(3, arch, 0xFF10, []FieldDef{{1, 1, 2}, {9, 0, 7}}, nil)
		s.Data(3, []byte{5})
		// a known message that ends in fields the profile does not list: they belong to the record all the same
		s.Def(4, arch, 20, []FieldDef{{253, 4, 0x86}, {3, 1, 2}, {200, 3, 0x0D}, {201, 2, 0x84}}, nil)
		s.Data(4, append(append(wire(u32le(0x39100030), arch), 120), 1, 2, 3, 4, 5))
		s.Data(4, append(append(wire(u32le(0x39100031), arch), 121), 6, 7, 8, 9, 10))
		s.Data(1, append(wire(u32le(0x39100020), arch), wire(u16le(9), arch)...))
		streams = append([][]byte{s.Bytes()}, streams...)
		pool = append([][]byte{s.Bytes()}, pool...)
	}
	// files whose missing last byte happens to equal what an earlier read left in a
	// scratch buffer (the profile version byte of the header for CheckIntegrity, the
	// second byte of the last field for Decode): a short read of the CRC must not go unnoticed
	for v := 0; v < 4; v++ {
		arch := byte(v % 2)
		build := func(prof uint16, a byte) []byte {
			s := newStream(12, false)
			s.profile = prof
			s.FileId(0, arch, 4)
			s.Def(1, arch, 20, []FieldDef{{3, 1, 2}, {7, 2, 0x84}}, nil)
			s.Data(1, []byte{60, 1, 2})
			s.Data(1, []byte{61, a, 0x5A})
			return s.Bytes()
		}
	search:
		for x := 0; x < 256; x++ {
			for y := 0; y < 256; y++ {
				var b []byte
				if v < 2 {
					b = build(uint16(x)|uint16(y)<<8, 7) // CheckIntegrity: header byte 2 (= x) is what stays behind
					if int(b[len(b)-1]) != x {
						continue
					}
				} else {
					b = build(uint16(2000+y), byte(x)) // Decode: the second byte of the last field (0x5A) stays behind
					if b[len(b)-1] != 0x5A {
						continue
					}
				}
				streams = append([][]byte{b}, streams...)
				pool = append([][]byte{b}, pool...)
				break search
			}
		}
	}
	var calls []*Call
	id := 0
	noffsets := 0
	// calls are validated and dropped in batches: the thorough tier records
	// several hundred thousand calls (inputs, read logs, projections)
	ncalls := 0
	var sampleCall *Call
	flush := func() {
		if len(calls) == 0 {
			return
		}
		mm := c.validateCalls(p, sch, calls, 14)
		// everything the Contract can say about a cut or faulted stream is C11's business
		c.reportFamily(p, mm, func(m Mismatch) bool {
			switch str(m.Rec["what"]) {
			case "slot count", "missing message", "no file returned", "chain length", "unknown message counts", "unknown field counts":
				return true
			}
			return false
		})
		c.verdictStats(calls)
		ncalls += len(calls)
		fmt.Fprintf(os.Stderr, "C11: %d calls validated (%.0f s)\n", ncalls, time.Since(c.Start).Seconds())
		if sampleCall == nil {
			sampleCall = calls[len(calls)/2]
			sampleCall = &Call{Note: sampleCall.Note, Ret: CallRet{Err: sampleCall.Ret.Err}, Final: sampleCall.Final, Why: sampleCall.Why}
		}
		calls = nil
	}
	for si, b := range streams {
		if len(calls) > 25000 {
			flush()
		}
		var offs []int
		if len(b) <= c.pick(200, 400) {
			for o := 0; o <= len(b); o++ {
				offs = append(offs, o)
			}
		} else {
			offs = interestingOffsets(c, b, c.pick(10, 100))
		}
		chained := si >= len(pool)
		apis := []string{"decode", "integrity", "chained"}
		if chained {
			apis = []string{"chained"}
		}
		for _, o := range offs {
			if len(calls) > 20000 {
				flush()
			}
			noffsets++
			for kind := 0; kind < 6; kind++ {
				rs := readScript{cut: -1, fault: -1}
				switch kind {
				case 4: // the reader's own error is the value the library uses for its own short reads
					rs.fault, rs.ferr = o, io.ErrUnexpectedEOF
				case 5: // a truncated input behind a reader that knows its length (bytes.Reader, strings.Reader)
					rs.cut, rs.withLen = o, true
				case 0:
					rs.cut = o
				case 1:
					rs.fault = o
				case 2:
					rs.cut, rs.withEOF = o, true
				case 3:
					rs.fault, rs.withErr = o, true
				}
				if kind >= 2 && !c.thorough() && o%3 != 0 {
					continue
				}
				rs.chunks = chunkScripts[(o+kind)%len(chunkScripts)]
				for _, api := range apis {
					id++
					cl := p.runCall(id, api, b, rs, CallOpts{UF: 1, UM: 1}, true)
					cl.Note = fmt.Sprintf("stream %d (%d bytes), %s at %d, chunks %v", si, len(b), []string{"cut", "fault", "cut with data+EOF", "fault with data+error", "fault reported as io.ErrUnexpectedEOF", "cut, reader with Len()"}[kind], o, rs.chunks)
					calls = append(calls, cl)
				}
				// header-only entry points: only offsets near the header matter
				if o <= 16 {
					for _, api := range []string{"header", "header_fileid", "integrity_hdr"} {
						id++
						cl := p.runCall(id, api, b, rs, CallOpts{}, true)
						cl.Note = fmt.Sprintf("stream %d, %s, offset %d kind %d", si, api, o, kind)
						calls = append(calls, cl)
					}
				}
			}
		}
	}
	flush()
	c.Cov["streams"] = len(streams)
	c.Cov["offsets"] = noffsets
	c.Cov["evaluations"] = ncalls
	c.Cov["distinct_nontrivial"] = noffsets
	c.Cov["rule"] = "valid single and chained streams x cut / fault offsets (every offset for short streams; header, record boundaries +-1, buffer boundaries +-1, CRC bytes and a seeded sample otherwise) x {clean EOF, fault, last bytes together with EOF, last bytes together with the fault, fault reported as io.ErrUnexpectedEOF, reader with a Len method} x entry points; distinct = (stream, offset) pairs"
	if sampleCall != nil {
		c.sample(map[string]interface{}{"kind": "call", "note": sampleCall.Note, "err": sampleCall.Ret.Err, "contract": sampleCall.Final + ": " + sampleCall.Why})
	}
	c.finish()
}
