package main

import (
	"bytes"
	"os"
	"os/exec"
	"path/filepath"
	"strings"
	"time"
)

// runApalache checks one invariant with the symbolic model checker
// (inductiveness: --init=<init> --inv=<inv> --length=<n>). Returns
// "NoError", "Error" (counterexample) or "" (tool failure, with its output).
func (c *Ctx) runApalache(module, init, inv string, length int) (string, string) {
	return c.runApalacheNext(module, init, "Next", inv, length)
}

func (c *Ctx) runApalacheNext(module, init, next, inv string, length int) (string, string) {
	dir := c.scratchDir()
	os.WriteFile(filepath.Join(dir, module+".tla"), mustRead(filepath.Join(specDir, module+".tla")), 0o644)
	cmd := exec.Command("timeout", "300", "apalache-mc", "check", "--init="+init, "--next="+next, "--inv="+inv, "--length="+itoa(length), "--out-dir="+filepath.Join(dir, "_out"), module+".tla")
	cmd.Dir = dir
	var out bytes.Buffer
	cmd.Stdout, cmd.Stderr = &out, &out
	t0 := time.Now()
	cmd.Run()
	_ = t0
	s := out.String()
	switch {
	case strings.Contains(s, "The outcome is: NoError"):
		return "NoError", s
	case strings.Contains(s, "The outcome is: Error"):
		return "Error", s
	}
	return "", s
}

func itoa(n int) string {
	if n == 0 {
		return "0"
	}
	var b []byte
	for n > 0 {
		b = append([]byte{byte('0' + n%10)}, b...)
		n /= 10
	}
	return string(b)
}
