package main

import (
	"fmt"
	"math/rand"
)

// c18Stream: component-bearing messages in a container that holds them.
func c18Stream(rng *rand.Rand, fileType int) *Stream {
	arch := byte(rng.Intn(2))
	s := newStream(12, false)
	s.FileId(0, arch, byte(fileType))
	u16 := func(v int) []byte { return wire(u16le(uint16(v)), arch) }
	v16 := func() int {
		return []int{0, 1, 0x1234, 0x7FFF, 0x8000, 0xFFFE, 0xFFFF, rng.Intn(65536)}[rng.Intn(8)]
	}
	// record: altitude, speed, compressed_speed_distance, cycles, compressed_accumulated_power
	s.Def(1, arch, 20, []FieldDef{{2, 2, 0x84}, {6, 2, 0x84}}, nil)
	s.Def(2, arch, 20, []FieldDef{{8, 3, 0x0D}}, nil)
	s.Def(3, arch, 20, []FieldDef{{18, 1, 2}, {28, 2, 0x84}}, nil)
	s.Def(4, arch, 19, []FieldDef{{13, 2, 0x84}, {14, 2, 0x84}, {42, 2, 0x84}, {43, 2, 0x84}, {62, 2, 0x84}}, nil) // lap
	s.Def(5, arch, 18, []FieldDef{{14, 2, 0x84}, {15, 2, 0x84}, {49, 2, 0x84}, {50, 2, 0x84}, {71, 2, 0x84}}, nil) // session
	s.Def(6, arch, 142, []FieldDef{{34, 2, 0x84}, {35, 2, 0x84}, {54, 2, 0x84}}, nil)                              // segment_lap
	s.Def(7, arch, 21, []FieldDef{{0, 1, 0}, {3, 4, 0x86}}, nil)                                                   // event + data
	s.Def(8, arch, 21, []FieldDef{{0, 1, 0}, {2, 2, 0x84}}, nil)                                                   // event + data16
	s.Def(9, arch, 20, []FieldDef{{2, 2, 0x84}, {78, 4, 0x86}}, nil)                                               // source and destination both explicit
	s.Def(10, arch, 19, []FieldDef{{110, 4, 0x86}, {14, 2, 0x84}, {42, 2, 0x84}}, nil)                             // lap: one enhanced field explicit, other sources legacy
	s.Def(11, arch, 18, []FieldDef{{126, 4, 0x86}, {14, 2, 0x84}, {71, 2, 0x84}}, nil)                             // session: likewise
	// source and its own destination both carried, with different values, in every host message
	s.Def(12, arch, 19, []FieldDef{{13, 2, 0x84}, {110, 4, 0x86}, {43, 2, 0x84}, {114, 4, 0x86}}, nil) // lap
	s.Def(13, arch, 18, []FieldDef{{14, 2, 0x84}, {124, 4, 0x86}, {71, 2, 0x84}, {127, 4, 0x86}}, nil) // session
	s.Def(14, arch, 142, []FieldDef{{34, 2, 0x84}, {91, 4, 0x86}, {54, 2, 0x84}, {93, 4, 0x86}}, nil)  // segment_lap
	// the compressed field followed by other fields of the same record (and preceded by one)
	s.Def(15, arch, 20, []FieldDef{{3, 1, 2}, {8, 3, 0x0D}, {4, 1, 2}, {7, 2, 0x84}, {13, 1, 1}}, nil)
	dist := rng.Intn(4096)
	cyc := rng.Intn(256)
	pow := rng.Intn(65536)
	n := 15 + rng.Intn(40)
	for i := 0; i < n; i++ {
		switch rng.Intn(10) {
		case 0:
			s.Data(1, append(u16(v16()), u16(v16())...))
		case 1, 2:
			// 12-bit speed, 12-bit distance advancing with rollovers
			dist = (dist + rng.Intn(700)) % 4096
			if rng.Intn(8) == 0 {
				dist = rng.Intn(4096)
			}
			sp := rng.Intn(4096)
			b := []byte{byte(sp), byte(sp>>8) | byte(dist&0x0F)<<4, byte(dist >> 4)}
			if rng.Intn(15) == 0 {
				b = []byte{0xFF, 0xFF, 0xFF}
			}
			if rng.Intn(3) == 0 {
				s.Data(15, append(append([]byte{byte(60 + rng.Intn(100))}, b...), append([]byte{byte(rng.Intn(200))}, append(u16(rng.Intn(1000)), byte(rng.Intn(60)))...)...))
			} else {
				s.Data(2, b)
			}
		case 3, 4:
			cyc = (cyc + rng.Intn(90)) % 256
			pow = (pow + rng.Intn(20000)) % 65536
			cv, pv := cyc, pow
			if rng.Intn(10) == 0 {
				cv = 0xFF
			}
			if rng.Intn(10) == 0 {
				pv = 0xFFFF
			}
			s.Data(3, append([]byte{byte(cv)}, u16(pv)...))
		case 5:
			s.Data(4, append(append(append(append(u16(v16()), u16(v16())...), u16(v16())...), u16(v16())...), u16(v16())...))
		case 6:
			s.Data(5, append(append(append(append(u16(v16()), u16(v16())...), u16(v16())...), u16(v16())...), u16(v16())...))
		case 7:
			s.Data(6, append(append(u16(v16()), u16(v16())...), u16(v16())...))
		case 8:
			ev := []byte{33, 42, 43, 0, 255, 7}[rng.Intn(6)]
			d := make([]byte, 4)
			rng.Read(d)
			switch rng.Intn(6) {
			case 0:
				d = []byte{0xFF, 0xFF, 0xFF, 0xFF}
			case 1:
				d = []byte{0, 0, 0, 0}
			case 2:
				d[rng.Intn(4)] = 0
			}
			if rng.Intn(2) == 0 {
				s.Data(7, append([]byte{ev}, wire(d, arch)...))
			} else {
				s.Data(8, append([]byte{ev}, u16(v16())...))
			}
		case 9:
			if rng.Intn(2) == 0 {
				l := 12 + rng.Intn(3)
				pl := append(append(append(u16(v16()), wire(u32le(uint32(rng.Intn(100000))), arch)...), u16(v16())...), wire(u32le(uint32(rng.Intn(100000))), arch)...)
				s.Data(l, pl)
				break
			}
			switch rng.Intn(3) {
			case 0:
				s.Data(9, append(u16(v16()), wire(u32le(rng.Uint32()), arch)...))
			case 1:
				s.Data(10, append(append(wire(u32le(uint32(rng.Intn(100000))), arch), u16(v16())...), u16(v16())...))
			default:
				s.Data(11, append(append(wire(u32le(uint32(rng.Intn(100000))), arch), u16(v16())...), u16(v16())...))
			}
		}
	}
	return s
}

// C18: component fields expand per profile, with per-file accumulation.
func runC18(c *Ctx) {
	p := exportProfile()
	sch := exportSchema()
	c.Assume = []string{
		"Contract: FitRef!ApplyEnhance / ExpandRecord / ExpandEvent (component table transcribed from the property statement and the profile's field numbers); accumulators restart with every file",
		"named deviations (known findings) are matched exactly: the value the current code is known to produce (KF_* operators in Trace_Decode); any other value is a violation",
		"a destination that the record also carries explicitly with a different value is left unpinned",
		"ComponentsImpl.tla transcribes expandComponents / accumu.go with one switch per recorded deviation: TLC shows Impl = Contract with the switches off and refutes each switch alone; the sequences it explores are replayed through DecodeChained and compared value for value with the as-implemented model (Trace_Components; differences there are model drift unless the Contract comparison also fails)",
	}
	rng := newRng(c.Seed)
	hosts := []int{4, 6, 20, 34} // activity, course, activity summary, segment
	var calls []*Call
	id := 0
	n := c.pick(60, 800)
	for i := 0; i < n; i++ {
		b := c18Stream(rng, hosts[i%len(hosts)]).Bytes()
		// decoded twice in a row in one process: only the first call starts
		// from fresh process-wide state; the Contract restarts per file
		for k := 0; k < 2; k++ {
			id++
			cl := p.runCall(id, "decode", b, plain, CallOpts{}, k == 0)
			cl.Note = fmt.Sprintf("file type %d, decode #%d in the process", hosts[i%len(hosts)], k+1)
			calls = append(calls, cl)
		}
		if i%5 == 0 {
			id++
			cl := p.runCall(id, "chained", append(append([]byte{}, b...), b...), plain, CallOpts{}, true)
			cl.Note = "two files chained"
			calls = append(calls, cl)
		}
	}
	calls = append(calls, corpusCalls(p, c, &id, c.pick(60000, 1<<30), CallOpts{})...)
	// the accumulator deviation model needs the calls of one process in one batch, in order
	mm := c.validateCalls(p, sch, calls, 1)
	// ComponentsImpl: Impl = Contract without the recorded deviations, each
	// deviation refuted alone, and every explored token sequence replayed
	// (each replayed call starts from fresh process state: any batching)
	scripts := componentsMC(c, c.pick(3, 4))
	compCalls := componentsReplay(c, p, sch, scripts, &id)
	mm = append(mm, c.validateCalls(p, sch, compCalls, 14)...)
	calls = append(calls, compCalls...)
	// unbounded in the number of records: Apalache discharges the inductive
	// invariant of the accumulator arithmetic (Impl = Contract forever) and
	// must refute it for the mask-zero deviation
	obl := [][5]string{{"Init", "Next", "IndInv", "0", "NoError"}, {"IndInit", "Next", "IndInv", "1", "NoError"},
		{"IndInit", "Next", "StepIsLeast", "1", "NoError"}, {"IndInit", "NextMaskZero", "IndInv", "1", "Error"}}
	discharged := 0
	for _, o := range obl {
		n := 0
		if o[3] == "1" {
			n = 1
		}
		res, out := c.runApalacheNext("AccumulateInt", o[0], o[1], o[2], n)
		switch {
		case res == o[4]:
			discharged++
		case res == "Error":
			c.report("accumulate-inductive", "Apalache: "+o[2]+" is not inductive for the accumulator arithmetic (AccumulateInt):\n"+tail(out, 1500), nil)
		case res == "NoError":
			c.die("AccumulateInt: the mask-zero deviation is not refuted (vacuous invariant)\n%s", tail(out, 800))
		default:
			c.die("apalache-mc failed on AccumulateInt (%s/%s/%s):\n%s", o[0], o[1], o[2], tail(out, 1500))
		}
	}
	c.Cov["apalache_obligations"] = len(obl)
	c.Cov["apalache_discharged"] = discharged
	c.reportFamily(p, mm, nil)
	c.verdictStats(calls)
	c.Cov["evaluations"] = len(calls)
	c.Cov["distinct_nontrivial"] = countDistinctInputs(calls)
	c.Cov["rule"] = "streams of record / lap / session / segment_lap / event messages with component sources (boundary patterns, rollovers, invalid sources, explicit destinations) in each container that holds them, decoded twice per process and chained; destinations compared with FitRef"
	c.sample(map[string]interface{}{"kind": "component stream (first 160 bytes)", "bytes": toInts(calls[0].raw[:min(160, len(calls[0].raw))])})
	c.finish()
}
