package main

import (
	"encoding/binary"
	"fmt"
	"reflect"
	"strings"
	"time"

	"github.com/tormoder/fit"
)

func archOf(i int) binary.ByteOrder {
	if i%2 == 0 {
		return binary.LittleEndian
	}
	return binary.BigEndian
}

// encodeFailureSig classifies an Encode failure for known-finding lookup.
func encodeFailureSig(cl *Call) string {
	if cl.Ret.Panic == 1 {
		return "encode-panic:" + firstWords(cl.Ret.PanicMsg)
	}
	switch {
	case contains(cl.Ret.ErrText, "can't encode array of strings"):
		return "encode-fails:array of strings"
	case contains(cl.Ret.ErrText, "as UTF-8 string"):
		return "encode-fails:invalid UTF-8 string"
	}
	return "encode-fails:" + firstWords(cl.Ret.ErrText)
}

func contains(s, sub string) bool {
	return len(sub) > 0 && len(s) >= len(sub) && (indexOf(s, sub) >= 0)
}
func indexOf(s, sub string) int {
	for i := 0; i+len(sub) <= len(s); i++ {
		if s[i:i+len(sub)] == sub {
			return i
		}
	}
	return -1
}

// encodeEvents builds Files over all file types and records their Encode calls.
func encodeEvents(c *Ctx, p *Profile, sch *Schema, id *int, perType int, perField bool, odd bool) (calls []*Call, outs [][]byte) {
	g := &fileGen{rng: newRng(c.Seed), p: p, density: 0.35, maxList: 4}
	emit := func(ft int, k int, onlyM, onlyS int, note string) {
		g.density = []float64{0.15, 0.4, 0.9}[k%3]
		g.odd = odd && k%5 == 4
		f := g.File(ft, k%4 < 2, onlyM, onlyS)
		if k%6 == 1 {
			// a header that is not fresh: as left by an earlier Encode or Decode
			f.Header.CRC = uint16(1 + g.rng.Intn(65535))
			f.Header.DataSize = uint32(g.rng.Intn(100000))
			f.CRC = uint16(g.rng.Intn(65536))
		}
		*id++
		cl, out := p.runEncode(*id, f, archOf(k))
		cl.Note = fmt.Sprintf("file type %d, %s, %s", ft, cl.Note, note)
		if g.odd {
			cl.Note += ", values outside the domain"
		}
		calls = append(calls, cl)
		outs = append(outs, out)
		if k%6 == 2 && cl.Ret.Err == 0 && cl.Ret.Panic == 0 {
			// encode, change the File, encode again
			g.odd = false
			g.fillMsg(reflect.ValueOf(&f.FileId).Elem(), 0, -1)
			if f.FileCreator == nil {
				f.FileCreator = g.newMsg(49, -1).Interface().(*fit.FileCreatorMsg)
			} else {
				f.FileCreator = nil
			}
			*id++
			cl2, out2 := p.runEncode(*id, f, archOf(k+1))
			cl2.Note = fmt.Sprintf("file type %d, %s, second Encode of a modified File", ft, cl2.Note)
			calls = append(calls, cl2)
			outs = append(outs, out2)
		}
	}
	for _, st := range sch.Types {
		for k := 0; k < perType; k++ {
			emit(st.T, k, -1, -1, "random subset")
		}
		reps := 1
		if perField && c.thorough() {
			reps = 6 // more value patterns per field
		}
		for rep := 0; perField && rep < reps; rep++ {
			// every hosted message type, every field alone, both byte orders
			for _, sl := range st.Slots {
				pm := p.by[sl.M]
				if pm == nil {
					continue // a container member that is not a known message: C15 reports it
				}
				for _, pf := range pm.Fields {
					for a := 0; a < 2; a++ {
						emit(st.T, a, sl.M, pf.S, fmt.Sprintf("%s field %d alone", pm.Name, pf.N))
					}
				}
			}
		}
	}
	return
}

// C05: Encode emits a well-formed, self-describing FIT stream.
func runC05(c *Ctx) {
	p := exportProfile()
	sch := exportSchema()
	c.Assume = []string{
		"the independent parser is FitRef (TLA+, interpreted by TLC): header, data size, both CRCs, definition before data, record length = sum of field sizes, field sizes multiples of the base-type size, profile-compatible definitions; the walk must end exactly at the data size and verify both CRCs",
		"values on the wire are compared with the projection of the File taken before Encode (arrays up to invalid padding and the profile length, strings up to the profile length - 1, local times by wall clock); no component expansion is applied on this path",
		"post-state: File.Header.DataSize, File.Header.CRC (14-byte headers) and File.CRC after Encode equal the values parsed from the output",
	}
	encoderModel(c, p, sch)
	id := 0
	calls, _ := encodeEvents(c, p, sch, &id, c.pick(6, 40), c.thorough(), true)
	var ok []*Call
	for _, cl := range calls {
		if cl.Ret.Err == 1 && cl.Ret.Panic == 0 && contains(cl.Note, "outside the domain") {
			continue // refusing out-of-domain values is fine; writing a malformed stream is not
		}
		if cl.Ret.Err == 1 || cl.Ret.Panic == 1 {
			c.report(encodeFailureSig(cl), fmt.Sprintf("Encode fails on a File built through the public API with in-domain values (%s): %s%s", cl.Note, cl.Ret.ErrText, cl.Ret.PanicMsg), cl)
			continue
		}
		ok = append(ok, cl)
	}
	mm := c.validateCalls(p, sch, ok, 14)
	c.reportFamily(p, mm, func(Mismatch) bool { return true })
	c.verdictStats(ok)
	c.Cov["evaluations"] = len(calls)
	c.Cov["distinct_nontrivial"] = countDistinctInputs(ok)
	c.Cov["rule"] = "Files over the 17 file types built by reflection through the public constructors: random field subsets at three densities (and, thorough, every hosted message type with every field alone), boundary and random in-domain values, both byte orders, headers with and without CRC; each Encode output parsed by FitRef and compared with the File"
	c.sample(map[string]interface{}{"kind": "encode call", "note": ok[0].Note, "bytes": ok[0].Input[:min(100, len(ok[0].Input))], "post": ok[0].Post})
	c.finish()
}

// encoderModel: EncoderImpl (transcription of writer.go) against the Contract
// on all small activity files: FitRef parses the model's output back to the
// File, and Encode is a function of the File; with the pre-fix map-order
// definition the determinism claim must fail (non-vacuity).
func encoderModel(c *Ctx, p *Profile, sch *Schema) {
	files := map[string][]byte{"profile.json": p.json(), "schema.json": sch.json()}
	for _, v := range [][4]string{{"2", "FALSE", "TRUE", "TRUE"}, {"1", "TRUE", "TRUE", "FALSE"}} {
		cfg := fmt.Sprintf("CONSTANTS\n MaxRecords = %s\n PreFixMapOrder = %s\n ExpectRoundTrip = %s\n ExpectDeterministic = %s\nINIT Init\nNEXT Next\n", v[0], v[1], v[2], v[3])
		r := c.runTLC(TLCRun{Module: "MC_EncoderImpl", Cfg: cfg, Workers: 1, HeapGB: 6, Files: files, Timeout: 20 * time.Minute})
		if r.Exit != 0 {
			if strings.Contains(r.Out, "is false") {
				if v[1] == "FALSE" {
					c.report("encoder-model", "TLC: the transcription of writer.go (EncoderImpl) does not round-trip through the reference decoder, or is not deterministic, for some small File:\n"+c.tlcTail(r), nil)
				} else {
					c.die("EncoderImpl with the pre-fix map-order definition is still deterministic: the model is vacuous\n%s", c.tlcTail(r))
				}
				continue
			}
			c.die("TLC MC_EncoderImpl exit %d\n%s", r.Exit, c.tlcTail(r))
		}
		c.account(r)
	}
	c.Cov["encoder_model_files"] = 1333
}
