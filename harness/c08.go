package main

import (
	"bytes"
	"crypto/sha256"
	"encoding/binary"
	"encoding/hex"
	"encoding/json"
	"fmt"
	"os"
	"os/exec"
	"path/filepath"
	"reflect"
	"regexp"
	"sort"
	"strconv"
	"strings"
	"sync"

	"github.com/tormoder/fit"
)

// ---------------------------------------------------------------------------
// The pool shared by the parent and its child processes (C08, C09).

type encSpec struct {
	Bad  bool   `json:"bad"` // a string that is not valid UTF-8: this Encode fails
	Seed int64  `json:"seed"`
	FT   int    `json:"ft"`
	K    int    `json:"k"`
	Odd  bool   `json:"odd"`
	Arch int    `json:"arch"`
	Str  string `json:"str"`  // every string field of every message is set to this value
	High int    `json:"high"` // > 0: an activity file with one session message that sets only the struct field of this index
}

type apiPool struct {
	Dir    string    `json:"dir"`
	NDec   int       `json:"ndec"`
	Notes  []string  `json:"notes"`
	Enc    []encSpec `json:"enc"`
	ChainN int       `json:"chainn"` // inputs >= ChainN are chains
	Solo   []int     `json:"solo"`   // inputs used only in histories with themselves (one per file type, every message with every field)
	Sib    []int     `json:"sib"`    // inputs that differ from another pool input in one definition byte
}

func (ap *apiPool) input(i int) []byte {
	return mustRead(filepath.Join(ap.Dir, fmt.Sprintf("in.%d", i)))
}

func (ap *apiPool) file(p *Profile, e encSpec) *fit.File {
	if e.High > 0 {
		f, _ := fit.NewFile(fit.FileTypeActivity, fit.NewHeader(fit.V20, false))
		f.FileId = *fit.NewFileIdMsg()
		f.FileId.Type = fit.FileTypeActivity
		a, _ := f.Activity()
		sm := fit.NewSessionMsg()
		fv := reflect.ValueOf(sm).Elem().Field(e.High)
		fv.SetUint(1000 + uint64(e.High))
		a.Sessions = append(a.Sessions, sm)
		return f
	}
	g := &fileGen{rng: newRng(e.Seed), p: p, density: 0.5, maxList: 3, long: e.Odd}
	f := g.File(e.FT, e.K%2 == 0, -1, -1)
	if e.Bad {
		f.FileId.ProductName = "ab\xff\xfe"
	}
	if e.Str != "" {
		setAllStrings(reflect.ValueOf(f), e.Str, 0)
		if cont, _ := container(f); cont != nil {
			setAllStrings(reflect.ValueOf(cont), e.Str, 0) // (File keeps it in an unexported field)
		}
	}
	return f
}

// setAllStrings sets every string field reachable from v (whatever size the
// profile gives it, including the fields it gives no size)
func setAllStrings(v reflect.Value, str string, depth int) {
	if depth > 8 {
		return
	}
	switch v.Kind() {
	case reflect.String:
		if v.CanSet() {
			v.SetString(str)
		}
	case reflect.Ptr, reflect.Interface:
		if !v.IsNil() {
			setAllStrings(v.Elem(), str, depth+1)
		}
	case reflect.Struct:
		if v.Type().String() == "time.Time" || v.Type().Name() == "Header" {
			return
		}
		for i := 0; i < v.NumField(); i++ {
			setAllStrings(v.Field(i), str, depth+1)
		}
	case reflect.Slice:
		if v.Type().Elem().Kind() == reflect.String {
			return // arrays of strings cannot be encoded
		}
		for i := 0; i < v.Len(); i++ {
			setAllStrings(v.Index(i), str, depth+1)
		}
	}
}

func buildAPIPool(c *Ctx, p *Profile, sch *Schema, dir string) *apiPool {
	rng := newRng(c.Seed)
	ap := &apiPool{Dir: dir}
	add := func(b []byte, note string) {
		os.WriteFile(filepath.Join(dir, fmt.Sprintf("in.%d", ap.NDec)), b, 0o644)
		ap.NDec++
		ap.Notes = append(ap.Notes, note)
	}
	// 0..2: the model's inputs A, B, C
	richC18 := func(ft int) []byte {
		for {
			s := c18Stream(rng, ft)
			n := 0
			for _, tk := range s.toks {
				if tk.kind == 'D' && tk.l == 2 {
					n++
				}
			}
			if n >= 4 {
				return s.Bytes()
			}
		}
	}
	add(richC18(4), "A: component stream with accumulated sources")
	add(mustRead(filepath.Join(repoDir, "testdata/fitsdk/Activity.fit")), "B: fitsdk/Activity.fit")
	add(richC18(6), "C: component stream (course file)")
	add(mustRead(filepath.Join(repoDir, "testdata/fitsdk/Settings.fit")), "fitsdk/Settings.fit")
	add(mustRead(filepath.Join(repoDir, "testdata/python-fitparse/compressed-speed-distance.fit")), "python-fitparse/compressed-speed-distance.fit")
	add(mustRead(filepath.Join(repoDir, "testdata/fitsdk/MonitoringFile.fit")), "fitsdk/MonitoringFile.fit (local timestamps)")
	// files whose first records rely on nothing but their own content:
	// compressed headers before any timestamp, local times before any reference
	for k := 0; k < 2; k++ {
		s := newStream(12, false)
		arch := byte(k)
		s.FileId(0, arch, 4)
		s.Def(1, arch, 20, []FieldDef{{3, 1, 2}}, nil)
		s.Compressed(1, 7, []byte{99})
		s.Compressed(1, 9, []byte{98})
		s.Def(2, arch, 34, []FieldDef{{5, 4, 0x86}}, nil)
		s.Data(2, wire(u32le(0x3A000000), arch))
		add(s.Bytes(), "compressed timestamps and a local time before any reference")
		// the other way round: the only reference is a local time, compressed headers follow
		s = newStream(12, false)
		s.FileId(0, arch, 4)
		s.Def(2, arch, 34, []FieldDef{{5, 4, 0x86}}, nil)
		s.Data(2, wire(u32le(0x3A000000+uint32(k)), arch))
		s.Def(1, arch, 20, []FieldDef{{3, 1, 2}}, nil)
		s.Compressed(1, 3, []byte{97})
		s.Compressed(1, 30, []byte{96})
		s.Compressed(1, 2, []byte{95})
		add(s.Bytes(), "a local time as the only reference, then compressed timestamps")
	}
	// local times whose zone offsets differ by seconds (a skewed device clock)
	for _, off := range []uint32{3600, 3620, 3659} {
		s := newStream(12, false)
		s.FileId(0, 0, 4)
		s.Def(1, 0, 34, []FieldDef{{253, 4, 0x86}, {5, 4, 0x86}}, nil)
		s.Data(1, append(u32le(0x39000000), u32le(0x39000000+off)...))
		add(s.Bytes(), fmt.Sprintf("activity with local time %d s ahead of UTC", off))
	}
	// files larger than any buffer the library may keep (4 KiB read buffer,
	// 32 / 64 KiB copy buffers), without accumulated fields
	for _, n := range []int{1200, 9000} {
		s := newStream(14, true)
		s.FileId(0, 0, 4)
		s.Def(1, 0, 20, []FieldDef{{253, 4, 0x86}, {3, 1, 2}, {4, 1, 2}, {7, 2, 0x84}}, nil)
		for r := 0; r < n; r++ {
			s.Data(1, append(u32le(0x38100000+uint32(r)), byte(60+rng.Intn(120)), byte(rng.Intn(200)), byte(rng.Intn(256)), byte(rng.Intn(4))))
		}
		add(s.Bytes(), fmt.Sprintf("long plain activity (%d records, %d bytes)", n, len(s.Bytes())))
		if n > 5000 {
			// the same file cut in the middle: every entry point fails on it, alone and in company;
			// whatever a failing call leaves behind must not reach the calls that follow
			b := s.Bytes()
			add(b[:len(b)/2], "long plain activity, truncated in the middle")
		}
	}
	// inputs that end inside their header (different lengths, both header sizes): the error
	// a call returns is its own, not an object shared with calls that fail the same way
	{
		act := mustRead(filepath.Join(repoDir, "testdata/fitsdk/Activity.fit"))
		add(act[:5], "fitsdk/Activity.fit cut inside the header (5 bytes)")
		add(act[:9], "fitsdk/Activity.fit cut inside the header (9 bytes)")
		s := newStream(14, true)
		s.FileId(0, 0, 4)
		add(s.Bytes()[:13], "14-byte header cut before its last byte")
	}
	add(c12Stream(rng, 0).Bytes(), "timestamp stream (activity)")
	add(c12Stream(rng, 1).Bytes(), "timestamp stream (schedules, local times with varying offsets)")
	g := &generator{rng: rng, p: p, sch: sch, k: defaultKnobs()}
	for k := 0; k < c.pick(3, 10); k++ {
		add(g.Generate().Bytes(), "generated stream")
	}
	// inputs that differ from a well-formed one only in the size a definition
	// declares for a field: whatever is decided about a definition must be
	// decided again for the next one
	for k, fd := range [][2]FieldDef{{{3, 1, 2}, {3, 2, 2}}, {{6, 2, 0x84}, {6, 1, 0x84}}, {{6, 2, 0x84}, {6, 4, 0x84}}, {{17, 3, 2}, {17, 9, 2}}, {{2, 4, 0x85}, {2, 3, 0x85}}} {
		for v := 0; v < 2; v++ {
			s := newStream(12, false)
			arch := byte(k % 2)
			s.FileId(0, arch, 4)
			s.Def(1, arch, 20, []FieldDef{{253, 4, 0x86}, fd[v]}, nil)
			for r := 0; r < 3; r++ {
				pl := wire(u32le(0x38000000+uint32(r)), arch)
				for i := 0; i < int(fd[v].Size); i++ {
					pl = append(pl, byte(10*r+i+1))
				}
				s.Data(1, pl)
			}
			if v == 1 {
				ap.Sib = append(ap.Sib, ap.NDec-1, ap.NDec)
			}
			add(s.Bytes(), fmt.Sprintf("record field %d declared with size %d", fd[v].Num, fd[v].Size))
		}
	}
	// per family of file types one stream whose messages carry every field the profile
	// knows for them (fields no device file of the corpus uses), and a file of the same
	// type that holds no list message at all (after the full one, its slots are still nil)
	for _, ft := range []int{15, 4, 9, 32} {
		ga := &generator{rng: rng, p: p, sch: sch, k: defaultKnobs()}
		ga.k.allFields, ga.k.fileType, ga.k.nrec, ga.k.pUnknownMsg, ga.k.pCompressed, ga.k.noTimeNoise = true, ft, 14, 0.05, 0.1, true
		add(ga.Generate().Bytes(), fmt.Sprintf("generated stream, all fields, file type %d", ft))
		s := newStream(12, false)
		s.FileId(0, 0, byte(ft))
		s.Def(1, 0, 49, []FieldDef{{0, 2, 0x84}}, nil)
		s.Data(1, []byte{1, 0})
		add(s.Bytes(), fmt.Sprintf("file type %d without any list message", ft))
	}
	// per file type NewFile accepts: every message of the profile three times, each
	// with all its fields holding valid, non-monotonic values (a value derived
	// from earlier ones - in this call or in an earlier one - shows in the second
	// Decode of the same bytes). These inputs meet only themselves in histories.
	for t := 0; t < 256; t++ {
		if newFileErr(t) == nil {
			ap.Solo = append(ap.Solo, ap.NDec)
			add(allMessagesStream(p, byte(t)).Bytes(), fmt.Sprintf("solo: file type %d, every message x3 with all fields valid", t))
		}
	}
	ap.ChainN = ap.NDec
	add(append(ap.input(1), ap.input(3)...), "chain: Activity + Settings")
	add(append(append(ap.input(0), ap.input(6)...), ap.input(0)...), "chain: A + compressed-first + A")
	_ = fmt.Sprint
	// Files for Encode: pairs on the same file type with long and short strings
	for ft, k := 0, 0; k < c.pick(8, 24); k++ {
		ft = sch.Types[k%len(sch.Types)].T
		ap.Enc = append(ap.Enc, encSpec{Seed: c.Seed*1000 + int64(k), FT: ft, K: k, Odd: k%2 == 0, Arch: k % 2})
	}
	// the same Files with every string set to a long and to a short value
	// (fields the profile sizes generously, tightly, or not at all)
	for k, ft := range []int{4, 4, 2, 2} {
		ap.Enc = append(ap.Enc, encSpec{Seed: c.Seed*1000 + 500 + int64(k/2), FT: ft, K: k / 2, Arch: k % 2,
			Str: []string{"left crank arm sensor \u20ac\u20ac", "abc"}[k%2]})
	}
	// messages that differ only in a field far down a long struct (session has
	// more than 64 fields): nothing about one message's shape may be remembered
	// for the next
	{
		st := reflect.TypeOf(fit.SessionMsg{})
		n := 0
		for i := st.NumField() - 1; i >= 64 && n < 3; i-- {
			if k := st.Field(i).Type.Kind(); k == reflect.Uint16 || k == reflect.Uint32 {
				ap.Enc = append(ap.Enc, encSpec{High: i, Arch: n % 2})
				n++
			}
		}
	}
	// an Encode that fails part-way: later calls must not see anything of it
	ap.Enc = append(ap.Enc, encSpec{Seed: c.Seed*1000 + 777, FT: 4, K: 1, Bad: true})
	return ap
}

func (ap *apiPool) isSolo(i int) bool {
	for _, s := range ap.Solo {
		if s == i {
			return true
		}
	}
	return false
}

// allMessagesStream: a file of type ft carrying every profile message (but
// file_id) three times with all fields: scalars once, arrays in two
// elements, strings "ab" + digit; low byte 1..100 varying non-monotonically
// over the three records, the other bytes zero (valid for every base type).
func allMessagesStream(p *Profile, ft byte) *Stream {
	s := newStream(14, true)
	s.FileId(0, 0, ft)
	for mi := range p.Msgs {
		pm := &p.Msgs[mi]
		if pm.M == 0 || len(pm.Fields) == 0 {
			continue
		}
		var fd []FieldDef
		for _, f := range pm.Fields {
			n := baseSize[f.B]
			if f.B == 7 {
				n = 4
			} else if f.A != 0 {
				n *= 2
			}
			fd = append(fd, FieldDef{byte(f.N), byte(n), baseByte[f.B]})
		}
		s.Def(1, 0, uint16(pm.M), fd, nil)
		for r := 0; r < 3; r++ {
			var pl []byte
			for _, f := range pm.Fields {
				v := byte(1 + ([3]int{50, 90, 20}[r]+f.N*3)%100)
				if f.B == 7 {
					pl = append(pl, 'a', 'b', '0'+v%10, 0)
					continue
				}
				bs := baseSize[f.B]
				k := 1
				if f.A != 0 {
					k = 2
				}
				for e := 0; e < k; e++ {
					el := make([]byte, bs)
					el[0] = v + byte(e)
					pl = append(pl, el...)
				}
			}
			s.Data(1, pl)
		}
	}
	return s
}

func digest(v interface{}) string {
	b, _ := json.Marshal(v)
	h := sha256.Sum256(b)
	return hex.EncodeToString(h[:8])
}

type histCall struct {
	API string `json:"api"`
	Idx int    `json:"idx"`
	G   int    `json:"g"`
}

func (h histCall) key() string { return h.API + "/" + strconv.Itoa(h.Idx) }

type callResult struct {
	Key    string      `json:"key"`
	G      int         `json:"g"`
	Digest string      `json:"digest"`
	Full   interface{} `json:"full,omitempty"`
}

// execCall runs one pool call in this process (no accumulator reset: the
// process state is whatever earlier calls left).
func execCall(p *Profile, ap *apiPool, h histCall, full bool) callResult {
	res := callResult{Key: h.key(), G: h.G}
	switch h.API {
	case "decode", "chained", "integrity":
		cl := p.runCall(0, h.API, ap.input(h.Idx), plain, CallOpts{UF: 1, UM: 1, Shared: true}, false)
		v := map[string]interface{}{"err": cl.Ret.Err, "panic": cl.Ret.Panic, "files": cl.Ret.Files, "consumed": cl.Ret.Consumed}
		res.Digest = digest(v)
		if full {
			res.Full = v
		}
	case "encode":
		e := ap.Enc[h.Idx]
		f := ap.file(p, e)
		var first []byte
		same := true
		var errText string
		for rep := 0; rep < 20; rep++ {
			var buf bytes.Buffer
			err := func() (err error) {
				defer func() {
					if x := recover(); x != nil {
						err = fmt.Errorf("panic: %v", x)
					}
				}()
				return fit.Encode(&buf, f, archOf(e.Arch))
			}()
			if err != nil {
				errText = err.Error()
			}
			if rep == 0 {
				first = buf.Bytes()
			} else if !bytes.Equal(first, buf.Bytes()) {
				same = false
			}
		}
		v := map[string]interface{}{"bytes": toInts(first), "deterministic": same, "err": errText != ""}
		res.Digest = digest(v)
		if full {
			res.Full = v
		}
	}
	return res
}

var _ = binary.LittleEndian

// child process: vcheck child <pool.json> <history.json> [full]
func runChild(args []string) {
	p := exportProfile()
	var ap apiPool
	json.Unmarshal(mustRead(args[0]), &ap)
	var hist []histCall
	json.Unmarshal(mustRead(args[1]), &hist)
	full := len(args) > 2 && args[2] == "full"
	out := json.NewEncoder(os.Stdout)
	for _, h := range hist {
		out.Encode(execCall(p, &ap, h, full))
	}
}

func (c *Ctx) runHistoryChild(poolFile string, hist []histCall, full bool, exe string) []callResult {
	hf, _ := os.CreateTemp(filepath.Dir(poolFile), "hist-*.json")
	b, _ := json.Marshal(hist)
	hf.Write(b)
	hf.Close()
	defer os.Remove(hf.Name())
	args := []string{"child", poolFile, hf.Name()}
	if full {
		args = append(args, "full")
	}
	cmd := exec.Command(exe, args...)
	var stdout, stderr bytes.Buffer
	cmd.Stdout, cmd.Stderr = &stdout, &stderr
	if err := cmd.Run(); err != nil && stdout.Len() == 0 {
		c.die("child process failed: %v\n%s", err, stderr.String())
	}
	var out []callResult
	dec := json.NewDecoder(&stdout)
	for dec.More() {
		var r callResult
		if err := dec.Decode(&r); err != nil {
			break
		}
		out = append(out, r)
	}
	return out
}

var reSchedule = regexp.MustCompile(`"?SCHEDULE (.*)`)
var reCall = regexp.MustCompile(`<<(\d+), \\?"call\\?", (\d+)>>`)

// apiModel runs MC_ApiImpl: the design with per-call accumulators satisfies
// the Contract; the design as implemented (process-wide accumulators) does
// not - and returns the call histories TLC enumerated.
func apiModel(c *Ctx, procs string, maxCalls int, emit bool) (histories [][][2]int) {
	for _, shared := range []string{"FALSE", "TRUE"} {
		cfg := fmt.Sprintf("CONSTANTS\n Procs <- %s\n Inputs <- MC_Inputs\n SharedAcc = %s\n MaxCalls = %d\n Bits = 3\nSPECIFICATION Spec\nINVARIANTS ResultsPure NoRace\nVIEW View\nCHECK_DEADLOCK FALSE\n", procs, shared, maxCalls)
		r := c.runTLC(TLCRun{Module: "MC_ApiImpl", Cfg: cfg, Workers: 4, HeapGB: 4})
		violated := strings.Contains(r.Out, "is violated")
		if shared == "FALSE" {
			if r.Exit != 0 {
				if violated {
					c.report("api-model", "TLC: the Api design with per-call accumulators violates its Contract:\n"+c.tlcTail(r), nil)
				} else {
					c.die("TLC MC_ApiImpl exit %d\n%s", r.Exit, c.tlcTail(r))
				}
			}
			c.account(r)
			c.add("api_model_states", r.Distinct)
		} else {
			c.Cov["model_with_process_wide_accumulators_violates_contract"] = violated
			if !violated {
				c.die("MC_ApiImpl with SharedAcc = TRUE does not violate the Contract: the model is vacuous\n%s", c.tlcTail(r))
			}
		}
	}
	if !emit {
		return nil
	}
	cfg := fmt.Sprintf("CONSTANTS\n Procs <- %s\n Inputs <- MC_Inputs\n SharedAcc = FALSE\n MaxCalls = %d\n Bits = 3\nSPECIFICATION Spec\nINVARIANTS EmitSchedules\nCHECK_DEADLOCK FALSE\n", procs, maxCalls)
	r := c.runTLC(TLCRun{Module: "MC_ApiImpl", Cfg: cfg, Workers: 1, HeapGB: 4})
	if r.Exit != 0 {
		c.die("TLC MC_ApiImpl (schedules) exit %d\n%s", r.Exit, c.tlcTail(r))
	}
	c.account(r)
	seen := map[string]bool{}
	for _, m := range reSchedule.FindAllStringSubmatch(r.Out, -1) {
		var h [][2]int
		for _, cm := range reCall.FindAllStringSubmatch(m[1], -1) {
			g, _ := strconv.Atoi(cm[1])
			i, _ := strconv.Atoi(cm[2])
			h = append(h, [2]int{g, i})
		}
		k := fmt.Sprint(h)
		if len(h) > 0 && !seen[k] {
			seen[k] = true
			histories = append(histories, h)
		}
	}
	return histories
}

// diffSig names what differs between two full results.
func diffSig(p *Profile, a, b interface{}) string {
	ja, _ := json.Marshal(a)
	jb, _ := json.Marshal(b)
	var x, y struct {
		Err   int         `json:"err"`
		Files []*FileProj `json:"files"`
		Bytes []int       `json:"bytes"`
	}
	json.Unmarshal(ja, &x)
	json.Unmarshal(jb, &y)
	if len(x.Bytes) > 0 || len(y.Bytes) > 0 {
		return "encode-bytes"
	}
	if x.Err != y.Err || len(x.Files) != len(y.Files) {
		return "verdict-or-file-count"
	}
	set := map[string]bool{}
	for i := range x.Files {
		for slot, ms := range x.Files[i].Slots {
			ys := y.Files[i].Slots[slot]
			if len(ms) != len(ys) {
				set["count:"+slot] = true
				continue
			}
			for j := range ms {
				fa, fb := map[int]string{}, map[int]string{}
				for _, f := range ms[j].F {
					fa[int(f[0].(float64))] = fmt.Sprint(f[1])
				}
				for _, f := range ys[j].F {
					fb[int(f[0].(float64))] = fmt.Sprint(f[1])
				}
				for s, v := range fa {
					if fb[s] != v {
						set[fieldName(p, ms[j].M, s)] = true
					}
				}
				for s := range fb {
					if _, ok := fa[s]; !ok {
						set[fieldName(p, ms[j].M, s)] = true
					}
				}
			}
		}
	}
	var keys []string
	for k := range set {
		keys = append(keys, k)
	}
	sort.Strings(keys)
	if len(keys) == 0 {
		return "file-level"
	}
	return strings.Join(keys, ",")
}

func fieldName(p *Profile, m, s int) string {
	if pf := p.bySindex(m, s); pf != nil {
		return fmt.Sprintf("m%d.f%d", m, pf.N)
	}
	return fmt.Sprintf("m%d.s%d", m, s)
}

// C08: decoding and encoding are pure.
func runC08(c *Ctx) {
	p := exportProfile()
	sch := exportSchema()
	c.Assume = []string{
		"Api contract (ApiImpl.tla): the result of a call is Pure(api, input); TLC checks it for all call histories of length <= 3 (quick) / 4 over a pool of 3 abstract inputs for the design with per-call accumulators, and finds the counterexample for the design as implemented (process-wide accumulators)",
		"Pure is tabulated by executing every pool call first in a fresh process (one child process per call); every history runs in its own fresh child process; TLC (Trace_Api) compares every recorded result with the table",
		"results are compared as digests of the full projection (decode: files, error, bytes consumed; encode: bytes written, 20 repetitions identical)",
	}
	exe, _ := os.Executable()
	dir := c.scratchDir()
	ap := buildAPIPool(c, p, sch, dir)
	poolFile := filepath.Join(dir, "pool.json")
	pb, _ := json.Marshal(ap)
	os.WriteFile(poolFile, pb, 0o644)

	hist1 := apiModel(c, "MC_Procs1", c.pick(3, 4), true)

	// all pool calls
	var allCalls, soloCalls []histCall
	for i := 0; i < ap.NDec; i++ {
		if ap.isSolo(i) {
			soloCalls = append(soloCalls, histCall{API: "decode", Idx: i}, histCall{API: "chained", Idx: i})
			continue
		}
		if i >= ap.ChainN {
			allCalls = append(allCalls, histCall{API: "chained", Idx: i})
		} else {
			allCalls = append(allCalls, histCall{API: "decode", Idx: i}, histCall{API: "chained", Idx: i})
		}
	}
	for i := range ap.Enc {
		allCalls = append(allCalls, histCall{API: "encode", Idx: i})
	}
	// Pure: each call first in a fresh process
	pure := map[string]string{}
	pureFull := map[string]interface{}{}
	var mu sync.Mutex
	var wg sync.WaitGroup
	sem := make(chan struct{}, 16)
	for _, h := range append(append([]histCall{}, allCalls...), soloCalls...) {
		wg.Add(1)
		sem <- struct{}{}
		go func(h histCall) {
			defer wg.Done()
			defer func() { <-sem }()
			r := c.runHistoryChild(poolFile, []histCall{h}, true, exe)
			if len(r) != 1 {
				c.die("baseline child returned %d results", len(r))
			}
			mu.Lock()
			pure[h.key()] = r[0].Digest
			pureFull[h.key()] = r[0].Full
			mu.Unlock()
		}(h)
	}
	wg.Wait()
	// the solo inputs are only worth something when they are accepted
	soloOK := 0
	for _, i := range ap.Solo {
		if m, ok := pureFull[histCall{API: "decode", Idx: i}.key()].(map[string]interface{}); ok && num(m["err"]) == 0 && num(m["panic"]) == 0 {
			soloOK++
		}
	}
	c.Cov["solo_inputs_accepted_by_decode"] = soloOK
	// encode determinism inside one call
	for k, v := range pureFull {
		if m, ok := v.(map[string]interface{}); ok {
			if d, ok := m["deterministic"].(bool); ok && !d {
				c.report("encode-nondeterministic", "Encode writes different bytes for the same File within one process ("+k+")", m)
			}
		}
	}
	// histories: TLC's (over A, B, C) and seeded random ones over the whole pool
	var histories [][]histCall
	for _, h := range hist1 {
		var hc []histCall
		for _, e := range h {
			hc = append(hc, histCall{API: "decode", Idx: e[1] - 1, G: 1})
		}
		histories = append(histories, hc)
	}
	ntlc := len(histories)
	sib := map[int]bool{}
	for _, i := range ap.Sib {
		sib[i] = true
	}
	// every ordered pair of pool calls: any dependence of one call on one earlier call
	for _, a := range allCalls {
		for _, b := range allCalls {
			sibPair := a.API != "encode" && b.API != "encode" && sib[a.Idx] && sib[b.Idx]
			if c.thorough() || (a.Idx+b.Idx)%2 == 0 || a.API == "encode" && b.API == "encode" || sibPair || b.API == "decode" {
				histories = append(histories, []histCall{a, b})
			}
		}
	}
	for _, i := range ap.Solo {
		d, ch := histCall{API: "decode", Idx: i}, histCall{API: "chained", Idx: i}
		histories = append(histories, []histCall{d, d}, []histCall{ch, ch}, []histCall{d, ch, d})
	}
	npairs := len(histories) - ntlc
	rng := newRng(c.Seed)
	for i := 0; i < c.pick(60, 1500); i++ {
		n := 3 + rng.Intn(14)
		var hc []histCall
		for k := 0; k < n; k++ {
			hc = append(hc, allCalls[rng.Intn(len(allCalls))])
		}
		histories = append(histories, hc)
	}
	results := make([][]callResult, len(histories))
	for i := range histories {
		wg.Add(1)
		sem <- struct{}{}
		go func(i int) {
			defer wg.Done()
			defer func() { <-sem }()
			results[i] = c.runHistoryChild(poolFile, histories[i], false, exe)
		}(i)
	}
	wg.Wait()
	// Trace_Api validation
	var tb bytes.Buffer
	ncalls := 0
	for i, rs := range results {
		type ev struct {
			Kind   string `json:"kind"`
			G      int    `json:"g"`
			Key    string `json:"key"`
			Result string `json:"result"`
		}
		evs := []ev{}
		for _, r := range rs {
			evs = append(evs, ev{"call", r.G, r.Key, r.Digest})
			ncalls++
		}
		if len(rs) != len(histories[i]) {
			c.die("history %d: child returned %d of %d results", i, len(rs), len(histories[i]))
		}
		b, _ := json.Marshal(map[string]interface{}{"id": i + 1, "events": evs})
		tb.Write(b)
		tb.WriteByte('\n')
	}
	pj, _ := json.Marshal(pure)
	mm := c.validateTraces("Trace_Api", "TSpec", "Post", tb.Bytes(), map[string][]byte{"pure.json": pj}, 4)
	c.Traces += int64(len(histories))
	reported := map[string]bool{}
	for _, m := range mm {
		hi := num(m["trace"]) - 1
		ei := num(m["event"]) - 1
		prefix := histories[hi][:ei+1]
		// re-execute the prefix, with full results, to name what differs
		sig := ""
		var full []callResult
		for attempt := 0; attempt < 5 && sig == ""; attempt++ {
			full = c.runHistoryChild(poolFile, prefix, true, exe)
			if len(full) == len(prefix) && full[ei].Digest != pure[prefix[ei].key()] {
				sig = "history-dependent:" + diffSig(p, pureFull[prefix[ei].key()], full[ei].Full)
			}
		}
		if sig == "" {
			// observed in the recorded run but not again: the result is not a
			// function of input and history either
			sig = "history-dependent:not reproducible (" + prefix[ei].API + ")"
			full = results[hi]
		}
		if reported[sig] {
			continue
		}
		reported[sig] = true
		var names []string
		for _, h := range prefix {
			names = append(names, h.key())
		}
		c.report(sig, fmt.Sprintf("the result of %s depends on the call history: after %v it differs from the same call made first in a fresh process", prefix[ei].key(), names[:len(names)-1]),
			map[string]interface{}{"history": prefix, "pool_notes": ap.Notes, "fresh": pureFull[prefix[ei].key()], "fresh_digest": pure[prefix[ei].key()], "after_history": full[ei]})
	}
	c.Cov["pool_calls"] = len(allCalls) + len(soloCalls)
	c.Cov["solo_inputs_one_per_file_type"] = len(ap.Solo)
	c.Cov["histories_from_tlc"] = ntlc
	c.Cov["histories_ordered_pairs"] = npairs
	c.Cov["histories_random"] = len(histories) - ntlc - npairs
	c.Cov["calls_replayed"] = ncalls
	c.Cov["evaluations"] = ncalls
	c.Cov["distinct_nontrivial"] = len(histories)
	c.Cov["rule"] = "every TLC-enumerated call history over the model's inputs A, B, C and seeded random histories (3..16 calls of Decode / DecodeChained / Encode over the whole pool), each in a fresh child process; every result compared with the call made first in a fresh process"
	c.sample(map[string]interface{}{"kind": "history", "calls": histories[0]})
	c.finish()
}
