package main

import (
	"fmt"
	"sort"
	"strings"
)

// ---------------------------------------------------------------------------
// Attribution of Contract disagreements to properties.

// component destinations (message number, field number): C18's business
var componentDest = map[[2]int]bool{
	{20, 78}: true, {20, 73}: true, {20, 6}: false /* speed is also a plain field */, {20, 5}: true, {20, 19}: true, {20, 29}: true,
	{19, 110}: true, {19, 111}: true, {19, 112}: true, {19, 113}: true, {19, 114}: true,
	{18, 124}: true, {18, 125}: true, {18, 126}: true, {18, 127}: true, {18, 128}: true,
	{142, 91}: true, {142, 92}: true, {142, 93}: true,
	{21, 3}: true, {21, 7}: true, {21, 8}: true, {21, 9}: true, {21, 10}: true, {21, 11}: true, {21, 12}: true,
}

func num(x interface{}) int {
	if f, ok := x.(float64); ok {
		return int(f)
	}
	return -1
}

func str(x interface{}) string {
	s, _ := x.(string)
	return s
}

// props returns the properties a mismatch record is evidence against.
func (p *Profile) props(m Mismatch) map[string]bool {
	out := map[string]bool{}
	r := m.Rec
	what := str(r["what"])
	errd := m.Call != nil && m.Call.Ret.Err == 1
	switch what {
	case "panic":
		out["C01"] = true
		if m.Call != nil && m.Call.Final == "accept" {
			out["C02"] = true // a well-formed, profile-compatible stream must decode
		}
	case "field":
		mn, s := num(r["m"]), num(r["s"])
		pf := p.bySindex(mn, s)
		out["C02"] = true
		if pf != nil {
			if pf.K == 1 || pf.K == 2 {
				out["C12"] = true
			}
			if b, _ := r["fromcsd"].(bool); b && mn == 20 && pf.N == 6 {
				out["C18"] = true // speed derived from compressed_speed_distance in this record
				delete(out, "C02")
			}
			if componentDest[[2]int{mn, pf.N}] {
				out["C18"] = true
				// a destination that was not on the wire is not a C02 matter
				delete(out, "C02")
			}
		}
	case "stream order":
		out["C03"] = true
	case "single slot holds an earlier message":
		out["C03"] = true
	case "message type", "slot count", "accessors", "accessor succeeds for an unsupported file type", "file type",
		"file_creator presence", "timestamp_correlation presence":
		if !errd || what == "accessors" || what == "file type" {
			out["C03"] = true
		}
	case "missing message":
		if !errd {
			out["C03"] = true
		}
	case "no file returned":
		out["C11"] = true
	case "verdict":
		exp, why := str(r["expected"]), str(r["why"])
		switch {
		case exp == "accept":
			out["C02"] = true
			if m.Call != nil && m.Call.API != "decode" {
				out["C10"] = true
			}
		case strings.HasPrefix(exp, "no error"):
			out["C10"] = true
			out["C11"] = true
		case why == "no definition for local type":
			out["C13"] = true
		case strings.HasPrefix(why, "truncated") || why == "eof at file start":
			out["C11"] = true
		case why == "file crc" || why == "header crc":
			out["C04"] = true
		case why == "file type":
			out["C03"] = true
		default:
			out["C11"] = true
		}
	case "unknown message counts", "unknown field counts", "unknown messages not sorted", "unknown fields not sorted":
		out["C16"] = true
	case "read past the frame", "bytes consumed", "chain length", "file header", "returned header":
		out["C10"] = true
	case "file crc field":
		out["C10"] = true
		out["C04"] = true
	default:
		out["C02"] = true
	}
	return out
}

// sigOf builds the signature under which a mismatch is looked up in
// known_findings.json: named deviations keep their name, everything else is
// identified by kind, message and field.
func (p *Profile) sigOf(m Mismatch) []string {
	r := m.Rec
	if kfs, ok := r["kf"].([]interface{}); ok && len(kfs) > 0 {
		var out []string
		for _, k := range kfs {
			out = append(out, str(k))
		}
		return out
	}
	what := str(r["what"])
	if what == "field" {
		mn, s := num(r["m"]), num(r["s"])
		name := fmt.Sprintf("m%d.s%d", mn, s)
		if pf := p.bySindex(mn, s); pf != nil {
			name = fmt.Sprintf("m%d.f%d", mn, pf.N)
		}
		return []string{"field:" + name}
	}
	if what == "verdict" {
		return []string{"verdict:" + str(r["expected"]) + ":" + str(r["why"])}
	}
	return []string{what}
}

// reportFamily reports the mismatches that are evidence against c.ID.
func (c *Ctx) reportFamily(p *Profile, mm []Mismatch, extra func(Mismatch) bool) {
	other := 0
	sort.SliceStable(mm, func(i, j int) bool { return mm[i].Call.ID < mm[j].Call.ID })
	for _, m := range mm {
		ps := p.props(m)
		if !ps[c.ID] && !(extra != nil && extra(m)) {
			other++
			kinds, _ := c.Cov["mismatch_kinds_attributed_elsewhere"].(map[string]int)
			if kinds == nil {
				kinds = map[string]int{}
				c.Cov["mismatch_kinds_attributed_elsewhere"] = kinds
			}
			kinds[str(m.Rec["what"])]++
			continue
		}
		for _, sig := range p.sigOf(m) {
			c.report(sig, fmt.Sprintf("%s call #%d (%s): the real code disagrees with the Contract: %v", m.Call.API, m.Call.ID, m.Call.Note, m.Rec),
				map[string]interface{}{"call": m.Call, "mismatch": m.Rec})
		}
	}
	c.add("mismatches_attributed_to_other_properties", int64(other))
}

// summarise verdict classes for evidence
func (c *Ctx) verdictStats(calls []*Call) {
	fin, _ := c.Cov["contract_verdicts"].(map[string]int) // merged when called once per batch
	if fin == nil {
		fin = map[string]int{}
	}
	nrec := 0
	for _, cl := range calls {
		fin[cl.Final+": "+cl.Why]++
		nrec += cl.NRec
	}
	c.Cov["contract_verdicts"] = fin
	c.add("records_walked_by_contract", int64(nrec))
}
