package main

import (
	"fmt"
	"os"
	"path/filepath"
	"strings"
	"time"
)

func readFile(dir, name string) ([]byte, error) {
	return os.ReadFile(filepath.Join(dir, name))
}

// validateTraces runs a Trace_* module over trace.ndjson and returns the
// mismatch records TLC wrote. Exit 0 = all accepted, exit 10/13 with a
// mismatch file = disagreements; everything else is a tool failure.
func (c *Ctx) validateTraces(module, spec, post string, trace []byte, files map[string][]byte, heapGB int) []map[string]interface{} {
	cfg := fmt.Sprintf("SPECIFICATION %s\nPOSTCONDITION %s\nCHECK_DEADLOCK FALSE\n", spec, post)
	fs := map[string][]byte{"trace.ndjson": trace}
	for k, v := range files {
		fs[k] = v
	}
	if heapGB == 0 {
		heapGB = 4
	}
	r := c.runTLC(TLCRun{Module: module, Cfg: cfg, Files: fs, Workers: 1, HeapGB: heapGB, Timeout: 30 * time.Minute})
	c.account(r)
	mm, err := readNDJSON(filepath.Join(r.Dir, "mismatch.ndjson"))
	if err != nil {
		c.die("TLC %s: no mismatch file (exit %d)\n%s", module, r.Exit, c.tlcTail(r))
	}
	if !strings.Contains(r.Out, "\"TRACES\"") {
		c.die("TLC %s: postcondition not evaluated (exit %d)\n%s", module, r.Exit, c.tlcTail(r))
	}
	if r.Exit == 0 && len(mm) == 0 {
		return nil
	}
	if len(mm) == 0 {
		// not all traces consumed, or some other failure
		c.die("TLC %s exit %d without mismatches\n%s", module, r.Exit, c.tlcTail(r))
	}
	return mm
}
