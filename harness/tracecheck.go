package main

import (
	"fmt"
	"os"
	"path/filepath"
	"strings"
	"time"
)

func readFile(dir, name string) ([]byte, error) {
	return os.ReadFile(filepath.Join(dir, name))
}

// validateTraces runs a Trace_* module over trace.ndjson and returns the
// mismatch records TLC wrote. Exit 0 = all accepted, exit 10/13 with a
// mismatch file = disagreements; everything else is a tool failure.
func (c *Ctx) validateTraces(module, spec, post string, trace []byte, files map[string][]byte, heapGB int) []map[string]interface{} {
	mm, err := c.validateTracesE(module, spec, post, trace, files, heapGB)
	if err != "" {
		c.die("%s", err)
	}
	return mm
}

// validateTracesE is validateTraces returning tool failures as a string
// (safe to call from several goroutines).
func (c *Ctx) validateTracesE(module, spec, post string, trace []byte, files map[string][]byte, heapGB int) ([]map[string]interface{}, string) {
	mm, _, err := c.validateTracesS(module, spec, post, trace, files, heapGB)
	return mm, err
}

// validateTracesS also returns the per-trace summary records (summary.ndjson), if the module writes them.
func (c *Ctx) validateTracesS(module, spec, post string, trace []byte, files map[string][]byte, heapGB int) ([]map[string]interface{}, []map[string]interface{}, string) {
	cfg := fmt.Sprintf("SPECIFICATION %s\nPOSTCONDITION %s\nCHECK_DEADLOCK FALSE\n", spec, post)
	fs := map[string][]byte{"trace.ndjson": trace}
	for k, v := range files {
		fs[k] = v
	}
	if heapGB == 0 {
		heapGB = 4
	}
	r := c.runTLC(TLCRun{Module: module, Cfg: cfg, Files: fs, Workers: 1, HeapGB: heapGB, Timeout: 30 * time.Minute})
	c.mu.Lock()
	c.account(r)
	c.mu.Unlock()
	mm, err := readNDJSON(filepath.Join(r.Dir, "mismatch.ndjson"))
	if err != nil {
		return nil, nil, fmt.Sprintf("TLC %s: no mismatch file (exit %d)\n%s", module, r.Exit, c.tlcTail(r))
	}
	sum, _ := readNDJSON(filepath.Join(r.Dir, "summary.ndjson"))
	if !strings.Contains(r.Out, "\"TRACES\"") {
		return nil, nil, fmt.Sprintf("TLC %s: postcondition not evaluated (exit %d)\n%s", module, r.Exit, c.tlcTail(r))
	}
	if r.Exit == 0 && len(mm) == 0 {
		return nil, sum, ""
	}
	if len(mm) == 0 {
		// not all traces consumed, or some other failure
		return nil, nil, fmt.Sprintf("TLC %s exit %d without mismatches\n%s", module, r.Exit, c.tlcTail(r))
	}
	return mm, sum, ""
}
