package main

import (
	"bytes"
	"encoding/binary"
	"encoding/json"
	"fmt"
	"os"
	"reflect"
	"strings"
	"unicode/utf8"

	"github.com/tormoder/fit"
)

func decodeReal(b []byte) (*fit.File, error) {
	fit.VerifResetAccumulators()
	return fit.Decode(bytes.NewReader(b))
}

// hasInvalidUTF8: does any string reachable from v fail utf8.ValidString?
func hasInvalidUTF8(v reflect.Value, depth int) bool {
	if depth > 8 {
		return false
	}
	switch v.Kind() {
	case reflect.String:
		return !utf8.ValidString(v.String())
	case reflect.Ptr, reflect.Interface:
		if v.IsNil() {
			return false
		}
		return hasInvalidUTF8(v.Elem(), depth+1)
	case reflect.Struct:
		if v.Type().String() == "time.Time" {
			return false
		}
		for i := 0; i < v.NumField(); i++ {
			if hasInvalidUTF8(v.Field(i), depth+1) {
				return true
			}
		}
	case reflect.Slice, reflect.Array:
		for i := 0; i < v.Len(); i++ {
			if hasInvalidUTF8(v.Index(i), depth+1) {
				return true
			}
		}
	}
	return false
}

// fixInvalidUTF8 replaces every settable string that is not valid UTF-8.
func fixInvalidUTF8(v reflect.Value, depth int) {
	if depth > 8 {
		return
	}
	switch v.Kind() {
	case reflect.String:
		if v.CanSet() && !utf8.ValidString(v.String()) {
			v.SetString("x")
		}
	case reflect.Ptr, reflect.Interface:
		if !v.IsNil() {
			fixInvalidUTF8(v.Elem(), depth+1)
		}
	case reflect.Struct:
		if v.Type().String() == "time.Time" {
			return
		}
		for i := 0; i < v.NumField(); i++ {
			fixInvalidUTF8(v.Field(i), depth+1)
		}
	case reflect.Slice, reflect.Array:
		for i := 0; i < v.Len(); i++ {
			fixInvalidUTF8(v.Index(i), depth+1)
		}
	}
}

// C07: anything Decode accepts can be re-encoded; one round trip is a fixpoint.
func runC07(c *Ctx) {
	p := exportProfile()
	sch := exportSchema()
	c.Assume = []string{
		"chain x -> F0 = D(x) -> e1 = E(F0) -> F1 = D(e1) -> e2 = E(F1) -> F2 = D(e2); every arrow is a recorded call validated by TLC (decode events against FitRef, encode events against the File that was encoded), e1 must pass CheckIntegrity, and F1 must equal F2 exactly (TLC compares the two projections)",
		"F0 vs F1 (same per-type counts, equal numeric / time / coordinate values, strings and arrays up to the profile lengths) follows from the encode event of F0 and the decode event of e1 sharing the bytes e1",
		"messages that no container holds, unknown fields and developer fields are not content of the File and are not expected to survive",
		"StringImpl.tla transcribes encodeString; TLC checks it against the string rule (NUL-terminated, longest prefix of whole characters that fits, valid UTF-8 never refused) on every string of <= 4 (5) characters x sizes 1..12 (20) and refutes the two defective truncation loops; the same domain and longer strings go through the real function (hook VerifEncodeString) and are validated by Trace_String",
	}
	// strings are the one field kind Encode re-shapes (fixed size, cut at a
	// character boundary): Impl model and Code ~ Impl conformance
	stringModel(c)
	stringConformance(c)
	rng := newRng(c.Seed)
	var inputs [][]byte
	var notes []string
	for _, f := range corpusFiles() {
		b, err := os.ReadFile(f)
		if err != nil || len(b) > c.pick(60000, 1<<30) || strings.Contains(f, "chained") {
			continue
		}
		inputs = append(inputs, b)
		notes = append(notes, strings.TrimPrefix(f, repoDir+"/"))
	}
	g := &generator{rng: rng, p: p, sch: sch, k: defaultKnobs()}
	g.k.nrec = 25
	for i := 0; i < c.pick(120, 1500); i++ {
		inputs = append(inputs, g.Generate().Bytes())
		notes = append(notes, "generated stream")
	}
	// every file-type value: whatever Decode accepts, Encode must be able to write
	for ft := 0; ft < 256; ft++ {
		s := newStream(12, false)
		arch := byte(ft % 2)
		s.FileId(0, arch, byte(ft))
		s.Def(1, arch, 49, []FieldDef{{0, 2, 0x84}, {1, 1, 2}}, nil) // file_creator
		s.Data(1, append(wire(u16le(uint16(ft)), arch), 3))
		s.Def(2, arch, 20, []FieldDef{{253, 4, 0x86}, {3, 1, 2}}, nil)
		s.Data(2, append(wire(u32le(0x39300000), arch), 90))
		inputs = append(inputs, s.Bytes())
		notes = append(notes, fmt.Sprintf("file type %d", ft))
	}
	// strings: unterminated, exactly filling, multi-byte characters at the cut
	for i := 0; i < c.pick(20, 200); i++ {
		s := newStream(12, false)
		arch := byte(i % 2)
		s.FileId(0, arch, 4)
		n := 1 + rng.Intn(40)
		s.Def(1, arch, 27, []FieldDef{{254, 2, 0x84}, {0, byte(n), 7}}, nil) // workout_step.wkt_step_name (16)
		for k := 0; k < 3; k++ {
			str := make([]byte, 0, n)
			for len(str) < n {
				if r := rng.Intn(9); r == 0 && len(str)+2 <= n {
					str = append(str, 0xC3, byte(0xA0+rng.Intn(30)))
				} else if r == 1 && len(str)+3 <= n {
					str = append(str, 0xE2, 0x82, byte(0xA0+rng.Intn(30))) // 3-byte characters
				} else if r == 2 && len(str)+4 <= n {
					str = append(str, 0xF0, 0x9F, 0x98, byte(0x80+rng.Intn(60))) // 4-byte characters
				} else if rng.Intn(12) == 0 {
					str = append(str, 0)
				} else {
					str = append(str, byte('a'+rng.Intn(26)))
				}
			}
			s.Data(1, append(wire(u16le(uint16(k)), arch), str...))
		}
		inputs = append(inputs, s.Bytes())
		notes = append(notes, "string stream")
	}
	// every way a multi-byte character can straddle the size the encoder
	// gives the field (the profile's length): widths 2..4 x every split
	if pf := p.field(27, 0); pf != nil {
		for w, ch := range map[int]string{2: "\u00e9", 3: "\u20ac", 4: "\U0001F600"} {
			for j := 0; j <= w; j++ {
				str := strings.Repeat("a", pf.L-1-j) + ch + "zz"
				if pf.L-1-j < 0 {
					continue
				}
				s := newStream(12, false)
				s.FileId(0, 0, 4)
				s.Def(1, 0, 27, []FieldDef{{254, 2, 0x84}, {0, byte(len(str) + 1), 7}}, nil)
				s.Data(1, append(append([]byte{byte(j), 0}, str...), 0))
				inputs = append(inputs, s.Bytes())
				notes = append(notes, fmt.Sprintf("string stream: %d-byte character with %d bytes before the field's end", w, j))
			}
		}
	}
	// long message groups in which a field only appears late (a sensor paired
	// mid-activity): the union definition must still carry it
	for k := 0; k < c.pick(1, 4); k++ {
		s := newStream(12, false)
		arch := byte(k % 2)
		s.FileId(0, arch, 4)
		s.Def(1, arch, 20, []FieldDef{{253, 4, 0x86}, {3, 1, 2}}, nil)
		s.Def(2, arch, 20, []FieldDef{{253, 4, 0x86}, {3, 1, 2}, {7, 2, 0x84}}, nil)
		n := 1100 + rng.Intn(600)
		late := 1030 + rng.Intn(n-1030)
		now := uint32(0x37000000)
		for r := 0; r < n; r++ {
			now++
			if r < late {
				s.Data(1, append(wire(u32le(now), arch), byte(100+r%50)))
			} else {
				s.Data(2, append(append(wire(u32le(now), arch), byte(100+r%50)), wire(u16le(uint16(150+r%100)), arch)...))
			}
		}
		inputs = append(inputs, s.Bytes())
		notes = append(notes, fmt.Sprintf("long group, field appears at record %d of %d", late, n))
	}
	// a string that is not valid UTF-8 (copied verbatim by the decoder)
	{
		s := newStream(12, false)
		s.FileId(0, 0, 4)
		s.Def(1, 0, 27, []FieldDef{{254, 2, 0x84}, {0, 8, 7}}, nil)
		s.Data(1, []byte{1, 0, 'a', 0xFF, 0xFE, 'b', 0, 0, 0, 0})
		// first, and again in the middle: the Encodes that follow a failed one must be unaffected
		inputs = append([][]byte{s.Bytes()}, inputs...)
		notes = append([]string{"string that is not valid UTF-8"}, notes...)
		mid := len(inputs) / 2
		inputs = append(inputs[:mid], append([][]byte{s.Bytes()}, inputs[mid:]...)...)
		notes = append(notes[:mid], append([]string{"string that is not valid UTF-8"}, notes[mid:]...)...)
	}
	var calls []*Call
	id := 0
	accepted := 0
	for i, x := range inputs {
		f0, err := decodeReal(x)
		if err != nil {
			continue // the property is about inputs that Decode accepts
		}
		accepted++
		id++
		d0 := p.runCall(id, "decode", x, plain, CallOpts{}, true)
		d0.Note = notes[i]
		calls = append(calls, d0)
		cur := f0
		var prev *FileProj
		var e1 []byte
		for gen := 1; gen <= 2; gen++ {
			id++
			arch := binary.ByteOrder(binary.LittleEndian)
			if (i+gen)%2 == 0 {
				arch = binary.BigEndian
			}
			ev, out := p.runEncode(id, cur, arch)
			ev.Note = fmt.Sprintf("%s: Encode of generation %d (%s)", notes[i], gen-1, ev.Note)
			if ev.Ret.Err == 1 || ev.Ret.Panic == 1 {
				// classified by cause, not by the wording of the error: the recorded
				// finding is "the File holds a string that is not valid UTF-8, and that
				// alone makes Encode fail" - checked by encoding the same File again
				// with those strings replaced
				sig := encodeFailureSig(ev)
				if ev.Ret.Panic == 0 {
					if hasInvalidUTF8(reflect.ValueOf(cur), 0) {
						fixInvalidUTF8(reflect.ValueOf(cur), 0)
						if cont, _ := container(cur); cont != nil {
							fixInvalidUTF8(reflect.ValueOf(cont), 0)
						}
						id++
						if ev2, _ := p.runEncode(id, cur, arch); ev2.Ret.Err == 0 && ev2.Ret.Panic == 0 {
							sig = "encode-fails:invalid UTF-8 string"
							// this Encode directly follows a failed one: what it writes is validated like any other
							ev2.Note = fmt.Sprintf("%s: Encode after the strings were replaced, right after a failed Encode (%s)", notes[i], ev2.Note)
							calls = append(calls, ev2)
						} else if sig == "encode-fails:invalid UTF-8 string" {
							sig = "encode-fails:" + firstWords(ev.Ret.ErrText)
						}
					} else if sig == "encode-fails:invalid UTF-8 string" {
						// the known finding is about strings that are not UTF-8 in the decoded File; this one has none
						sig = "encode-fails:a valid UTF-8 string is refused"
					}
				}
				c.report(sig, fmt.Sprintf("Encode of a decoded File fails (%s): %s%s", ev.Note, ev.Ret.ErrText, ev.Ret.PanicMsg), map[string]interface{}{"input": toInts(x), "encode": ev})
				break
			}
			calls = append(calls, ev)
			if gen == 1 {
				e1 = out
				id++
				ic := p.runCall(id, "integrity", e1, plain, CallOpts{}, true)
				ic.Note = notes[i] + ": CheckIntegrity of the re-encoded file"
				calls = append(calls, ic)
			}
			id++
			dn := p.runCall(id, "decode", out, plain, CallOpts{}, true)
			dn.Note = fmt.Sprintf("%s: Decode of generation %d", notes[i], gen)
			calls = append(calls, dn)
			if dn.Ret.Err == 1 || len(dn.Ret.Files) != 1 {
				c.report("redecode-fails", fmt.Sprintf("the re-encoded file does not decode (%s): %s", dn.Note, dn.Ret.ErrText), map[string]interface{}{"input": toInts(x), "decode": dn})
				break
			}
			if gen == 2 {
				// fixpoint: F1 = F2 (content: header sizes and CRCs follow the byte order used)
				a, b := contentOnly(prev), contentOnly(dn.Ret.Files[0])
				if a != b {
					what := diffSig(p, map[string]interface{}{"err": 0, "files": []*FileProj{prev}}, map[string]interface{}{"err": 0, "files": []*FileProj{dn.Ret.Files[0]}})
					c.report("not-a-fixpoint:"+what, fmt.Sprintf("decoding the second re-encoding differs from the first in %s (%s)", what, notes[i]),
						map[string]interface{}{"input": toInts(x), "first": prev, "second": dn.Ret.Files[0]})
				}
			}
			prev = dn.Ret.Files[0]
			nf, err := decodeReal(out)
			if err != nil {
				break
			}
			cur = nf
		}
	}
	mm := c.validateCalls(p, sch, calls, 14)
	// a string that is not valid UTF-8 and does not fit its field: encodeString looks for a
	// character boundary that does not exist and writes a shorter (or empty) string without
	// complaint - the other face of the recorded finding about such strings (there: Encode refuses)
	{
		var rest []Mismatch
		for _, m := range mm {
			if m.Call.API == "encode" && str(m.Rec["what"]) == "field" {
				if pf := p.bySindex(num(m.Rec["m"]), num(m.Rec["s"])); pf != nil && pf.B == 7 && pf.A == 0 {
					if ob, ok := m.Rec["observed"].([]interface{}); ok {
						raw := make([]byte, 0, len(ob))
						for _, x := range ob {
							if v := num(x); v >= 0 {
								raw = append(raw, byte(v))
							}
						}
						if !utf8.Valid(raw) && len(raw) > pf.L-1 {
							c.report("encode-cuts:invalid UTF-8 string", fmt.Sprintf("Encode silently shortens a decoded string that is not valid UTF-8 and longer than its field (%s, message %d field %d): %v is written as %v", m.Call.Note, num(m.Rec["m"]), pf.N, m.Rec["observed"], m.Rec["expected"]),
								map[string]interface{}{"call": m.Call, "mismatch": m.Rec})
							continue
						}
					}
				}
			}
			rest = append(rest, m)
		}
		mm = rest
	}
	c.reportFamily(p, mm, func(m Mismatch) bool {
		// decode events of the original input x are C02's business; everything
		// on the re-encoding path is C07's
		if m.Call.API == "decode" && !strings.Contains(m.Call.Note, "generation") {
			return false
		}
		return roundTripRelevant(p, m)
	})
	c.verdictStats(calls)
	c.Cov["inputs"] = len(inputs)
	c.Cov["inputs_accepted_by_decode"] = accepted
	c.Cov["evaluations"] = len(calls)
	c.Cov["distinct_nontrivial"] = countDistinctInputs(calls)
	c.Cov["rule"] = "inputs: device files, profile-driven generated streams, string streams (unterminated / multi-byte at the field end); for each accepted input two re-encode generations in alternating byte orders; every call validated by TLC; F1 = F2 compared on content"
	c.sample(map[string]interface{}{"kind": "chain", "input": notes[0], "calls": 7})
	c.finish()
}

func contentOnly(f *FileProj) string {
	x := *f
	x.Hdr = HdrProj{}
	x.CRC = 0
	b, _ := json.Marshal(x)
	return string(b)
}

func firstDiffSlot(a, b *FileProj) string {
	for k, v := range a.Slots {
		x, _ := json.Marshal(v)
		y, _ := json.Marshal(b.Slots[k])
		if string(x) != string(y) {
			return k
		}
	}
	return "file-level"
}
