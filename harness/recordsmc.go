package main

import (
	"fmt"
	"regexp"
	"strconv"
	"strings"
	"time"
)

var reScript = regexp.MustCompile(`"?SCRIPT (<<.*>>)"?`)
var reTok = regexp.MustCompile(`<<([0-9, ]*)>>`)

// recordsMC runs MC_Records: the Contract's record layer explored over every
// token sequence up to the depth (invariants = independent restatements of
// C13 / C12 / C03 at token level), and returns the explored sequences as
// streams for replay into the real decoder.
func recordsMC(c *Ctx, p *Profile, sch *Schema, depth int) []*Stream {
	cfg := fmt.Sprintf("CONSTANTS\n MaxDepth = %d\n Emit = TRUE\nSPECIFICATION Spec\nINVARIANTS UndefinedIsError LatestWins OrderKept EmitScript\nCHECK_DEADLOCK FALSE\n", depth)
	r := c.runTLC(TLCRun{Module: "MC_Records", Cfg: cfg, Workers: 12, HeapGB: 8, Timeout: 40 * time.Minute,
		Files: map[string][]byte{"profile.json": p.json(), "schema.json": sch.json()}})
	if r.Exit != 0 {
		if strings.Contains(r.Out, "is violated") {
			c.report("records-model", "TLC: the reference decoder FitRef violates an independent restatement of the record-layer rules (the Contract is inconsistent):\n"+c.tlcTail(r), nil)
			return nil
		}
		c.die("TLC MC_Records exit %d\n%s", r.Exit, c.tlcTail(r))
	}
	c.account(r)
	c.add("records_model_states", r.Distinct)
	var out []*Stream
	for _, m := range reScript.FindAllStringSubmatch(r.Out, -1) {
		body := strings.ReplaceAll(m[1], "\\", "")
		s := newStream(12, false)
		s.proto, s.profile = 16, 2115
		// fixed prefix: file_id definition on local type 5, type = activity
		s.Def(5, 0, 0, []FieldDef{{0, 1, 0}}, nil)
		s.Data(5, []byte{4})
		inner := strings.TrimSuffix(strings.TrimPrefix(body, "<<"), ">>")
		for _, tm := range reTok.FindAllStringSubmatch(inner, -1) {
			var b []byte
			for _, x := range strings.Split(tm[1], ",") {
				if x = strings.TrimSpace(x); x != "" {
					v, _ := strconv.Atoi(x)
					b = append(b, byte(v))
				}
			}
			if len(b) == 0 {
				continue
			}
			h := b[0]
			switch {
			case h&0x80 != 0:
				s.Compressed(int(h>>5)&3, int(h&0x1F), b[1:])
			case h&0x40 != 0:
				arch := b[2]
				g := uint16(b[3]) | uint16(b[4])<<8
				if arch == 1 {
					g = uint16(b[4]) | uint16(b[3])<<8
				}
				var fs []FieldDef
				for i := 0; i < int(b[5]); i++ {
					fs = append(fs, FieldDef{b[6+3*i], b[7+3*i], b[8+3*i]})
				}
				s.Def(int(h&0x0F), arch, g, fs, nil)
			default:
				s.Data(int(h&0x0F), b[1:])
			}
		}
		out = append(out, s)
	}
	return out
}
