package main

import (
	"bytes"
	"encoding/json"
	"fmt"

	"github.com/tormoder/fit"
)

// C16: decode options only add information; unknown-item counts are exact.
func runC16(c *Ctx) {
	p := exportProfile()
	sch := exportSchema()
	c.Assume = []string{
		"Contract counters (FitRef!Step: unkm per data record of an unknown message, unkf per record of a known message per unlisted field number); TLC evaluates them",
		"on a failure part-way the record in flight may or may not be counted (completed <= reported <= completed + 1)",
		"option independence is checked twice: every one of the 8 calls is validated against the same Contract, and the 8 projections (messages, error, bytes consumed) are compared with each other",
	}
	rng := newRng(c.Seed)
	g := &generator{rng: rng, p: p, sch: sch, k: defaultKnobs()}
	g.k.pUnknownMsg = 0.3
	g.k.pUnknownFld = 0.5
	g.k.nrec = 40
	n := c.pick(40, 400)
	var calls []*Call
	id := 0
	groups := [][]*Call{}
	addGroupAPI := func(api string, b []byte, rs readScript, note string) {
		var grp []*Call
		for o := 0; o < 8; o++ {
			id++
			cl := p.runCall(id, api, b, rs, CallOpts{UF: o & 1, UM: (o >> 1) & 1, Log: (o >> 2) & 1}, true)
			cl.Note = note
			grp = append(grp, cl)
		}
		groups = append(groups, grp)
		calls = append(calls, grp...)
	}
	addGroup := func(b []byte, rs readScript, note string) { addGroupAPI("decode", b, rs, note) }
	for i := 0; i < n; i++ {
		s := g.Generate()
		b := s.Bytes()
		addGroup(b, plain, "generated")
		// failing part-way: cut inside the record area, and a corrupted copy
		if i%2 == 0 && len(b) > 40 {
			cut := 14 + rng.Intn(len(b)-14)
			addGroup(b, readScript{cut: cut, fault: -1}, fmt.Sprintf("cut at %d", cut))
		}
		if i%4 == 1 {
			bb := append([]byte{}, b...)
			bb[14+rng.Intn(len(bb)-16)] ^= byte(1 << uint(rng.Intn(8)))
			addGroup(bb, plain, "bit flip")
		}
	}
	// failures right after the file_id record (a file type the library does
	// not hold, or none at all): the file_id record is complete and its
	// unlisted fields are to be accounted for
	for i, ft := range []int{0xFF, 0, 3, 50, 200, 0xF7, 4, 32} {
		for v := 0; v < c.pick(2, 6); v++ {
			arch := byte((i + v) % 2)
			s := newStream(12+2*(v%2), v%2 == 1)
			fs := []FieldDef{{0, 1, 0}, {1, 2, 0x84}}
			pl := append([]byte{byte(ft)}, wire(u16le(1), arch)...)
			for k := 0; k < 1+rng.Intn(3); k++ {
				fs = append(fs, FieldDef{byte(100 + 10*k + rng.Intn(10)), 1, 2}) // unlisted file_id fields
				pl = append(pl, byte(rng.Intn(256)))
			}
			s.Def(rng.Intn(16), arch, 0, fs, nil)
			s.Data(int(s.toks[0].l), pl)
			if v%3 != 2 {
				s.Def(1, arch, 0xFF01, []FieldDef{{1, 1, 2}}, nil)
				s.Data(1, []byte{7})
				s.Def(2, arch, 20, []FieldDef{{3, 1, 2}, {120, 1, 2}}, nil)
				s.Data(2, []byte{70, 1})
			}
			addGroup(s.Bytes(), plain, fmt.Sprintf("file type %d, file_id with unlisted fields", ft))
		}
	}
	// chains: the options hold for every file of the chain, not only the first
	for i := 0; i < c.pick(8, 60); i++ {
		var all []byte
		for k := 0; k < 2+i%2; k++ {
			all = append(all, g.Generate().Bytes()...)
		}
		addGroupAPI("chained", all, plain, "chain of generated files")
		if i%3 == 0 {
			cut := len(all)/2 + rng.Intn(len(all)/2)
			addGroupAPI("chained", all, readScript{cut: cut, fault: -1}, fmt.Sprintf("chain cut at %d", cut))
		}
	}
	// device files with unknown items, all 8 option sets
	for _, f := range corpusFiles() {
		b := mustRead(f)
		if len(b) > c.pick(30000, 200000) {
			continue
		}
		addGroup(b, plain, f)
	}
	// compressed-timestamp records before any reference (the logger warns here)
	for i := 0; i < c.pick(10, 60); i++ {
		s := c12Stream(rng, i%2) // compressed headers, and local times around references of every kind
		b := s.Bytes()
		addGroup(b, plain, "timestamps")
	}
	mm := c.validateCalls(p, sch, calls, 14)
	c.reportFamily(p, mm, nil)
	// cross-option equality
	diffs := 0
	for _, grp := range groups {
		base := optionIndependentPart(grp[0])
		for _, cl := range grp[1:] {
			if x := optionIndependentPart(cl); x != base {
				diffs++
				c.report("options-change-result", fmt.Sprintf("decode options change the result (%s): opts %+v vs none", cl.Note, cl.Opts),
					map[string]interface{}{"with_options": cl, "without": grp[0]})
			}
		}
	}
	// counters beyond 16 bits: one (known message, unlisted field) pair and one
	// unknown message, each carried by 65 540 / 70 001 data records of one file.
	// The Contract counter (FitRef!Step) adds one per record; on a stream the
	// harness built from a single repeated record that is the record count, so
	// the expected lists are written down directly (TLC's 32-bit integers hold
	// them, but validating 135 000 steps per call is left to the sampled calls).
	{
		const nf, nm = 65540, 70001
		s := newStream(14, true)
		s.FileId(0, 0, 4)
		s.Def(1, 0, 20, []FieldDef{{253, 4, 0x86}, {3, 1, 2}, {200, 1, 2}}, nil)
		for r := 0; r < nf; r++ {
			s.Data(1, append(u32le(0x38000000+uint32(r)), byte(60+r%90), byte(r)))
		}
		s.Def(2, 0, 0xFF10, []FieldDef{{1, 1, 2}}, nil)
		for r := 0; r < nm; r++ {
			s.Data(2, []byte{byte(r)})
		}
		f, err := fit.Decode(bytes.NewReader(s.Bytes()), fit.WithUnknownFields(), fit.WithUnknownMessages())
		switch {
		case err != nil:
			c.report("long-count-file-refused", fmt.Sprintf("Decode refuses a well-formed file of %d + %d records: %v", nf, nm, err), map[string]interface{}{"builder": "c16 long counters"})
		case len(f.UnknownFields) != 1 || f.UnknownFields[0].MesgNum != 20 || f.UnknownFields[0].FieldNum != 200 || f.UnknownFields[0].Count != nf:
			c.report("unknown-field-count-long", fmt.Sprintf("UnknownFields = %+v for a file in which %d record messages carry unlisted field 200", f.UnknownFields, nf), map[string]interface{}{"builder": "c16 long counters", "records": nf})
		case len(f.UnknownMessages) != 1 || f.UnknownMessages[0].MesgNum != 0xFF10 || f.UnknownMessages[0].Count != nm:
			c.report("unknown-message-count-long", fmt.Sprintf("UnknownMessages = %+v for a file carrying %d data records of unknown message 0xFF10", f.UnknownMessages, nm), map[string]interface{}{"builder": "c16 long counters", "records": nm})
		}
		c.Cov["long_counter_file_records"] = nf + nm
	}
	c.verdictStats(calls)
	c.Cov["option_groups"] = len(groups)
	c.Cov["cross_option_differences"] = diffs
	c.Cov["evaluations"] = len(calls)
	c.Cov["distinct_nontrivial"] = countDistinctInputs(calls)
	c.Cov["rule"] = "each input (generated with unknown messages/fields, cut or corrupted part-way, device files) is decoded under all 8 option combinations; distinct = distinct inputs"
	c.sample(map[string]interface{}{"kind": "unknown lists of one call", "unkm": calls[3].Ret.Files[0].UnkM, "unkf": calls[3].Ret.Files[0].UnkF})
	c.finish()
}

// optionIndependentPart renders what must not depend on the options:
// messages, error verdict, bytes consumed.
func optionIndependentPart(cl *Call) string {
	type part struct {
		Err, Consumed int
		ErrText       string // "never changes ... the error": the same failure reads the same under every option set
		Panic         int
		Files         []FileProj
	}
	pt := part{Err: cl.Ret.Err, ErrText: cl.Ret.ErrText, Consumed: cl.Ret.Consumed, Panic: cl.Ret.Panic}
	for _, f := range cl.Ret.Files {
		x := *f
		x.UnkM, x.UnkF, x.HasUnkM, x.HasUnkF = nil, nil, 0, 0
		pt.Files = append(pt.Files, x)
	}
	b, _ := json.Marshal(pt)
	return string(b)
}
