package main

import "fmt"

// C13: local message types - the latest definition wins, slots are
// independent, a data record without definition is an error.
func runC13(c *Ctx) {
	p := exportProfile()
	sch := exportSchema()
	c.Assume = []string{
		"the Contract (FitRef!Step: defs[l] replaced by Definition(l), looked up by Data(l)) is the reference; TLC evaluates it",
		"independence streams: a disagreement counts against C13 if the same stream without the records of one local type (definitions without fields, with developer fields only, ... for messages the file does not hold) agrees with the Contract",
		"attribution: a value disagreement counts against C13 only if the same record decodes correctly in the control stream, where every data record directly follows its own definition on local type 0",
	}
	rng := newRng(c.Seed)
	g := &generator{rng: rng, p: p, sch: sch, k: defaultKnobs()}
	g.k.slots = []int{0, 1, 2, 3, 4, 5, 6, 7, 8, 9, 10, 11, 12, 13, 14, 15}
	g.k.pDef = 0.45
	g.k.pCompressed = 0.3
	g.k.nrec = 60
	g.k.maxFields = 5
	g.k.noTimeNoise = true
	g.k.fileType = 4 // activity: most message types held
	g.k.msgs = []int{20, 21, 19, 18, 23, 101, 78, 132, 26, 27}
	n := c.pick(120, 1500)
	var calls []*Call
	pair := map[int]int{} // stream call id -> control call id
	id := 0
	undefined := 0
	for i := 0; i < n; i++ {
		s := g.Generate()
		id++
		a := p.runCall(id, "decode", s.Bytes(), plain, CallOpts{}, true)
		a.Note = "slot reuse"
		calls = append(calls, a)
		if ctl := s.Control(); ctl != nil {
			id++
			b := p.runCall(id, "decode", ctl.Bytes(), plain, CallOpts{}, true)
			b.Note = "control"
			calls = append(calls, b)
			pair[a.ID] = b.ID
		}
		// the same stream with a data record of a never-defined local type spliced in
		if i%3 == 0 {
			var free []int
			for l := 0; l < 16; l++ {
				if s.defs[l] == nil {
					free = append(free, l)
				}
			}
			if len(free) > 0 {
				l := free[rng.Intn(len(free))]
				// a compressed header can only name local types 0..3: if one of them is free while a
				// local type with the same two low bits is defined, send a record that would fit that one
				written := false
				for _, lc := range free {
					if lc > 3 || written {
						continue
					}
					for _, alias := range []int{lc + 4, lc + 8, lc + 12} {
						if !written && s.defs[alias] != nil && rng.Intn(2) == 0 {
							s.Compressed(lc, rng.Intn(32), g.payloadFor(s.defs[alias]))
							written = true
						}
					}
				}
				if written {
					l = -1
				}
				if l < 0 {
					// written above
				} else if rng.Intn(2) == 0 && l <= 3 {
					s.Compressed(l, rng.Intn(32), []byte{1, 2})
				} else {
					s.Data(l, []byte{1, 2, 3})
				}
				id++
				u := p.runCall(id, "decode", s.Bytes(), plain, CallOpts{}, true)
				u.Note = "undefined local type"
				calls = append(calls, u)
				undefined++
			}
		}
	}
	// long-lived definitions: one slot is defined once and used throughout
	// while the other slots are redefined with large field lists (more than
	// 4096 field definitions in total), in both byte orders
	for k := 0; k < c.pick(2, 12); k++ {
		arch := byte(k % 2)
		s := newStream(12, false)
		s.FileId(0, arch, 4)
		live := 1 + rng.Intn(15)
		s.Def(live, arch, 20, []FieldDef{{253, 4, 0x86}, {3, 1, 2}, {4, 1, 2}, {2, 2, 0x84}}, nil)
		now := uint32(0x38000000)
		rounds := 40 + rng.Intn(20)
		for r := 0; r < rounds; r++ {
			other := (live + 1 + rng.Intn(15)) % 16
			nf := 100 + rng.Intn(51)
			var fs []FieldDef
			pay := []byte{}
			for f := 0; f < nf; f++ {
				// unknown field numbers of the record message, one byte each
				fs = append(fs, FieldDef{byte(100 + f), 1, 0x02})
				pay = append(pay, byte(rng.Intn(256)))
			}
			s.Def(other, byte(rng.Intn(2)), 20, fs, nil)
			s.Data(other, pay)
			now += 7
			p1 := append(wire(u32le(now), arch), byte(60+r), byte(80+r))
			p1 = append(p1, wire(u16le(uint16(2500+r)), arch)...)
			s.Data(live, p1)
		}
		id++
		a := p.runCall(id, "decode", s.Bytes(), plain, CallOpts{}, true)
		a.Note = "slot reuse"
		calls = append(calls, a)
		if ctl := s.Control(); ctl != nil {
			id++
			b := p.runCall(id, "decode", ctl.Bytes(), plain, CallOpts{}, true)
			b.Note = "control"
			calls = append(calls, b)
			pair[a.ID] = b.ID
		}
	}
	// independence: one local type (A) is defined and redefined in every
	// shape a definition can take - no fields at all, developer fields only,
	// long field lists, either byte order - for messages the file does not
	// hold; the records of the other local types must decode exactly as in
	// the same stream without A
	indep := map[int]int{} // stream call id -> id of the call on the stream without A
	for k := 0; k < c.pick(40, 400); k++ {
		s := newStream(12, false)
		arch := byte(rng.Intn(2))
		s.FileId(0, arch, 4)
		la := 1 + rng.Intn(15)
		lb := 1 + (la+rng.Intn(14))%15
		if lb == la {
			lb = 1 + la%15
		}
		now := uint32(0x38800000)
		s.Def(lb, arch, 20, []FieldDef{{253, 4, 0x86}, {3, 1, 2}, {4, 1, 2}}, nil)
		defineA := func() {
			var fs []FieldDef
			var dv []DevDef
			kind := rng.Intn(6) // 5: no fields and no developer flag (records are a bare header byte)
			if kind >= 2 && kind != 5 {
				for f := 0; f < 1+rng.Intn(6); f++ {
					fs = append(fs, FieldDef{byte(f), byte(1 + rng.Intn(3)), 0x0D})
				}
			}
			if kind <= 2 || (kind != 5 && rng.Intn(3) == 0) {
				dv = []DevDef{}
			}
			if kind == 1 || kind == 2 || (dv != nil && rng.Intn(2) == 0) {
				for f := 0; f < 1+rng.Intn(3); f++ {
					dv = append(dv, DevDef{byte(f), byte(1 + rng.Intn(5)), 0})
				}
			}
			s.Def(la, byte(rng.Intn(2)), uint16(0xFF00+rng.Intn(16)), fs, dv)
		}
		defineA()
		// a third local type that carries the same message without profile as A, in another size
		lc := 1 + (lb+rng.Intn(13))%15
		for lc == la || lc == lb {
			lc = 1 + lc%15
		}
		twin := func() {
			if d := s.defs[la]; d != nil {
				s.Def(lc, byte(rng.Intn(2)), d.global, []FieldDef{{0, byte(1 + rng.Intn(9)), 0x0D}, {7, byte(1 + rng.Intn(4)), 0x0D}}, nil)
			}
		}
		if k%2 == 1 {
			twin()
		}
		for r := 0; r < 12+rng.Intn(12); r++ {
			if k%2 == 1 && rng.Intn(4) == 0 && s.defs[lc] != nil {
				n := 0
				for _, f := range s.defs[lc].fields {
					n += int(f.Size)
				}
				pl := make([]byte, n)
				for i := range pl {
					pl[i] = []byte{byte(lb), byte(0x40 | lb), byte(rng.Intn(256)), 0}[rng.Intn(4)]
				}
				s.Data(lc, pl)
				continue
			}
			switch rng.Intn(5) {
			case 0:
				defineA()
				if k%2 == 1 && rng.Intn(2) == 0 {
					twin()
				}
			case 1, 2:
				d := s.defs[la]
				n := 0
				for _, f := range d.fields {
					n += int(f.Size)
				}
				for _, f := range d.dev {
					n += int(f.Size)
				}
				pl := make([]byte, n)
				for i := range pl {
					// bytes that read as record headers of the other local type if taken for one
					pl[i] = []byte{byte(lb), byte(0x40 | lb), byte(rng.Intn(256)), 0}[rng.Intn(4)]
				}
				s.Data(la, pl)
			default:
				now += uint32(1 + rng.Intn(9))
				s.Data(lb, append(wire(u32le(now), arch), byte(60+r), byte(rng.Intn(200))))
			}
		}
		ctl := s.Without(la)
		id++
		a := p.runCall(id, "decode", s.Bytes(), plain, CallOpts{}, true)
		a.Note = "independence"
		id++
		b := p.runCall(id, "decode", ctl.Bytes(), plain, CallOpts{}, true)
		b.Note = "independence control"
		calls = append(calls, a, b)
		indep[a.ID] = b.ID
	}
	// the very first data record addresses a local type that was never defined
	for _, pr := range [][2]int{{5, 3}, {0, 1}, {15, 0}, {2, 10}} {
		for arch := byte(0); arch < 2; arch++ {
			s := newStream(12, false)
			s.Def(pr[0], arch, 0, []FieldDef{{0, 1, 0}, {1, 2, 0x84}}, nil)
			s.Raw(append([]byte{byte(pr[1]), 4}, wire(u16le(1), arch)...)...)
			s.Def(1, arch, 20, []FieldDef{{3, 1, 2}}, nil)
			s.Data(1, []byte{70})
			id++
			u := p.runCall(id, []string{"decode", "header_fileid"}[int(arch)], s.Bytes(), plain, CallOpts{}, true)
			u.Note = fmt.Sprintf("file_id definition on local type %d, first data record on %d", pr[0], pr[1])
			calls = append(calls, u)
			undefined++
		}
	}
	// definitions do not survive into the next file of a chain
	for k := 0; k < c.pick(6, 40); k++ {
		arch := byte(k % 2)
		a := newStream(12, false)
		a.FileId(0, arch, 4)
		l := 1 + rng.Intn(15)
		a.Def(l, arch, 20, []FieldDef{{253, 4, 0x86}, {3, 1, 2}}, nil)
		a.Data(l, append(wire(u32le(0x39000000+uint32(k)), arch), 90))
		b := newStream(12, false)
		b.FileId(0, arch, 4)
		b.Def((l+1)%16, arch, 20, []FieldDef{{3, 1, 2}}, nil)
		b.Data((l+1)%16, []byte{91})
		if l <= 3 && k%3 == 0 {
			b.Compressed(l, 5, append(wire(u32le(0x39000100), arch), 92)) // only file a defined l
		} else {
			b.Data(l, append(wire(u32le(0x39000100), arch), 92))
		}
		id++
		u := p.runCall(id, "chained", append(a.Bytes(), b.Bytes()...), plain, CallOpts{}, true)
		u.Note = fmt.Sprintf("chain: the second file uses local type %d, which only the first file defines", l)
		calls = append(calls, u)
		undefined++
	}
	// every record sequence up to the depth over the model's alphabet (TLC-generated)
	scripts := recordsMC(c, p, sch, c.pick(3, 4))
	for _, s := range scripts {
		id++
		a := p.runCall(id, "decode", s.Bytes(), plain, CallOpts{}, true)
		a.Note = "slot reuse"
		calls = append(calls, a)
		if ctl := s.Control(); ctl != nil {
			id++
			b := p.runCall(id, "decode", ctl.Bytes(), plain, CallOpts{}, true)
			b.Note = "control"
			calls = append(calls, b)
			pair[a.ID] = b.ID
		}
	}
	c.Cov["tlc_generated_record_sequences_replayed"] = len(scripts)
	mm := c.validateCalls(p, sch, calls, 14)
	// index control mismatches
	type key struct {
		call      int
		slot      string
		idx, s, m int
	}
	ctlBad := map[key]bool{}
	ctlErr := map[int]bool{}
	for _, m := range mm {
		if m.Call.Note == "control" {
			ctlBad[key{m.Call.ID, str(m.Rec["slot"]), num(m.Rec["idx"]), num(m.Rec["s"]), num(m.Rec["m"])}] = true
			if str(m.Rec["what"]) == "verdict" {
				ctlErr[m.Call.ID] = true
			}
		}
	}
	indepBad := map[int]bool{}
	for _, m := range mm {
		if m.Call.Note == "independence control" {
			indepBad[m.Call.ID] = true
		}
	}
	c.reportFamily(p, mm, func(m Mismatch) bool {
		// a value that is the expected one with the bytes of every element reversed: the
		// byte order of the record's own definition was not applied
		if str(m.Rec["what"]) == "field" && byteSwapped(m.Rec["expected"], m.Rec["observed"]) {
			return true
		}
		if m.Call.Note == "independence" {
			// the same records without local type A decode as the Contract says: A's presence changed the others
			return !indepBad[indep[m.Call.ID]]
		}
		// records lost, misrouted or refused on a stream the Contract accepts: whatever the cause, a
		// record was not interpreted with the definition of the local type its header addresses
		// (value disagreements are left to the control comparison below)
		if m.Call.Note == "slot reuse" || m.Call.Note == "control" {
			switch str(m.Rec["what"]) {
			case "missing message", "slot count", "message type":
				return m.Call.Final == "accept"
			case "verdict":
				if str(m.Rec["expected"]) == "accept" {
					return true
				}
			}
		}
		if m.Call.Note != "slot reuse" {
			return false
		}
		cid, ok := pair[m.Call.ID]
		if !ok {
			return false
		}
		switch str(m.Rec["what"]) {
		case "field", "missing message", "message type":
			return !ctlBad[key{cid, str(m.Rec["slot"]), num(m.Rec["idx"]), num(m.Rec["s"]), num(m.Rec["m"])}] && !ctlErr[cid]
		case "verdict":
			return str(m.Rec["expected"]) == "accept" && !ctlErr[cid]
		}
		return false
	})
	c.verdictStats(calls)
	c.Cov["streams_with_slot_reuse"] = n
	c.Cov["streams_with_undefined_local_type"] = undefined
	c.Cov["evaluations"] = len(calls)
	c.Cov["distinct_nontrivial"] = countDistinctInputs(calls)
	c.Cov["rule"] = "streams over all 16 local types (0..3 also through compressed headers) with redefinitions switching message, field list, sizes and byte order; each validated record by record against FitRef, together with its control stream"
	c.sample(map[string]interface{}{"kind": "slot reuse stream (first 160 bytes)", "bytes": toInts(calls[0].raw[:min(160, len(calls[0].raw))])})
	c.finish()
}

func min(a, b int) int {
	if a < b {
		return a
	}
	return b
}

// byteSwapped: observed equals expected with each 2-, 4- or 8-byte element reversed (and differs from it).
func byteSwapped(e, o interface{}) bool {
	ea, ok1 := e.([]interface{})
	oa, ok2 := o.([]interface{})
	if !ok1 || !ok2 || len(ea) != len(oa) || len(ea) < 2 {
		return false
	}
	same := true
	for i := range ea {
		if num(ea[i]) != num(oa[i]) {
			same = false
		}
		if num(ea[i]) < 0 {
			return false
		}
	}
	if same {
		return false
	}
	for _, w := range []int{2, 4, 8} {
		if len(ea)%w != 0 {
			continue
		}
		all := true
		for i := 0; i < len(ea) && all; i += w {
			for j := 0; j < w; j++ {
				if num(ea[i+j]) != num(oa[i+w-1-j]) {
					all = false
					break
				}
			}
		}
		if all {
			return true
		}
	}
	return false
}
