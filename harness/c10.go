package main

import (
	"encoding/json"
	"fmt"
	"math/rand"
	"os"
	"strings"
)

// frameMC runs the FrameImpl model (the code's reader against an adversarial
// environment: every chunking, every cut, every fault point) on small chains.
func frameMC(c *Ctx) {
	confs := []string{"MC_Files1", "MC_Files2", "MC_Files3", "MC_Files4", "MC_Files5", "MC_Files6"}
	bufs := []int{4}
	if c.thorough() {
		bufs = []int{1, 3, 4, 64}
	}
	for _, f := range confs {
		for _, b := range bufs {
			cfg := fmt.Sprintf("CONSTANTS\n FileSets <- %s\n BufSize = %d\n CopyBuf = %d\n DataWithErr = TRUE\n PreFixChainRule = FALSE\nSPECIFICATION Spec\nINVARIANTS NeverPastFrame SuccessConsumesExactly TruncationIsError FaultIsError CleanEndIsOk PartialContent\nPROPERTY Terminates\nCHECK_DEADLOCK FALSE\n", f, b, b)
			r := c.runTLC(TLCRun{Module: "MC_FrameImpl", Cfg: cfg, Workers: 4, HeapGB: 4})
			if r.Exit != 0 {
				if strings.Contains(r.Out, "is violated") {
					c.report("frameimpl-model", "TLC: the reader model FrameImpl violates a Frame property (design-level counterexample):\n"+c.tlcTail(r), nil)
					continue
				}
				c.die("TLC MC_FrameImpl exit %d\n%s", r.Exit, c.tlcTail(r))
			}
			c.account(r)
			c.add("frameimpl_states", r.Distinct)
		}
	}
	// non-vacuity: the model with the pre-fix chain rule must violate FaultIsError
	cfg := "CONSTANTS\n FileSets <- MC_Files2\n BufSize = 4\n CopyBuf = 4\n DataWithErr = TRUE\n PreFixChainRule = TRUE\nSPECIFICATION Spec\nINVARIANTS FaultIsError\nCHECK_DEADLOCK FALSE\n"
	r := c.runTLC(TLCRun{Module: "MC_FrameImpl", Cfg: cfg, Workers: 1, HeapGB: 2})
	c.Cov["model_detects_prefix_chain_rule"] = strings.Contains(r.Out, "Invariant FaultIsError is violated")
	if !strings.Contains(r.Out, "Invariant FaultIsError is violated") {
		c.die("FrameImpl with the pre-fix chain rule does not violate FaultIsError: the model is vacuous\n%s", c.tlcTail(r))
	}
}

// validPool returns small valid FIT files: device files, generated streams.
func validPool(p *Profile, sch *Schema, rng *rand.Rand, maxSize, ngen int) [][]byte {
	var out [][]byte
	for _, f := range corpusFiles() {
		if strings.Contains(f, "corrupt") || strings.Contains(f, "chained") || strings.Contains(f, "broken") {
			continue
		}
		b, err := os.ReadFile(f)
		if err == nil && len(b) <= maxSize {
			out = append(out, b)
		}
	}
	g := &generator{rng: rng, p: p, sch: sch, k: defaultKnobs()}
	g.k.nrec = 12
	g.k.pCompressed = 0.4
	for i := 0; i < ngen; i++ {
		s := g.Generate()
		if i%4 == 3 {
			// a file whose first records use compressed headers and local types 0..3:
			// any decoder state leaking from a previous chained file shows here
			s = newStream(12, false)
			arch := byte(rng.Intn(2))
			s.FileId(0, arch, 4)
			s.Def(1, arch, 20, []FieldDef{{3, 1, 2}}, nil)
			for k := 0; k < 3; k++ {
				s.Compressed(1, rng.Intn(32), []byte{byte(rng.Intn(200))})
			}
		}
		out = append(out, s.Bytes())
	}
	// legal but unusual: a second file_id record of the same type with other content
	for k := 0; k < 2; k++ {
		arch := byte(k)
		s := newStream(12+2*k, true)
		s.Def(0, arch, 0, []FieldDef{{0, 1, 0}, {1, 2, 0x84}, {3, 4, 0x8C}}, nil)
		s.Data(0, append(append([]byte{4}, wire(u16le(1), arch)...), wire(u32le(1144201745), arch)...))
		s.Def(1, arch, 20, []FieldDef{{3, 1, 2}}, nil)
		s.Data(1, []byte{80})
		s.Data(0, append(append([]byte{4}, wire(u16le(15), arch)...), wire(u32le(142042709), arch)...))
		s.Data(1, []byte{81})
		out = append(out, s.Bytes())
	}
	// a file_id that leaves its optional fields out (no time_created, no serial
	// number), in a file full of timestamps: what the file_id says does not
	// depend on what follows it
	for k := 0; k < 2; k++ {
		arch := byte(k)
		s := newStream(12+2*k, k == 1)
		if k == 0 {
			s.Def(0, arch, 0, []FieldDef{{0, 1, 0}, {1, 2, 0x84}}, nil)
			s.Data(0, append([]byte{4}, wire(u16le(1), arch)...))
		} else {
			// manufacturer, product and number present and zero: zero is a value, not "unset"
			s.Def(0, arch, 0, []FieldDef{{0, 1, 0}, {1, 2, 0x84}, {2, 2, 0x84}, {5, 2, 0x84}}, nil)
			s.Data(0, []byte{4, 0, 0, 0, 0, 0, 0})
		}
		s.Def(1, arch, 20, []FieldDef{{253, 4, 0x86}, {3, 1, 2}}, nil)
		for r := 0; r < 3; r++ {
			s.Data(1, append(wire(u32le(0x39200000+uint32(r)), arch), byte(70+r)))
		}
		s.Def(2, arch, 34, []FieldDef{{253, 4, 0x86}, {5, 4, 0x86}}, nil)
		s.Data(2, append(wire(u32le(0x39200010), arch), wire(u32le(0x39200010+3600), arch)...))
		out = append(out, s.Bytes())
	}
	return out
}

var chunkScripts = [][]int{nil, {1}, {2}, {3}, {7}, {4095}, {4096}, {4097}, {1, 13, 2, 4096}, {5, 1, 1, 9000}}

// C10: framing - a decode consumes exactly one file; chained files are independent.
func runC10(c *Ctx) {
	p := exportProfile()
	sch := exportSchema()
	c.Assume = []string{
		"environment assumption of FrameImpl: a Read returns at least one byte or an error (a reader returning (0, nil) forever is outside \"however reads are chunked\")",
		"Contract for recorded calls: Trace_Decode!ReadsOK (every Read request ends inside the frame it starts in), bytes consumed = header + data + 2 on success, every chained file equals the Contract's decode of its own bytes",
		"\"equal to decoding that file alone\" is additionally compared directly (projection of the chained result vs projection of Decode on the member's bytes, both from the real code)",
	}
	frameMC(c)
	rng := newRng(c.Seed)
	pool := validPool(p, sch, rng, c.pick(3000, 150000), c.pick(16, 80))
	var calls []*Call
	id := 0
	run := func(api string, b []byte, rs readScript, note string) *Call {
		id++
		cl := p.runCall(id, api, b, rs, CallOpts{}, true)
		cl.Note = note
		calls = append(calls, cl)
		return cl
	}
	members := map[int][][]byte{}
	alone := map[string]string{}
	aloneProj := func(b []byte) string {
		if s, ok := alone[string(b)]; ok {
			return s
		}
		cl := p.runCall(0, "decode", b, plain, CallOpts{UF: 1, UM: 1}, true)
		js, _ := json.Marshal(cl.Ret.Files)
		alone[string(b)] = string(js)
		return string(js)
	}
	// single files x chunk scripts x entry points, followed by trailing bytes
	// that must not be touched
	for i, b := range pool {
		trail := append(append([]byte{}, b...), 0xAA, 0x55, 0xAA, 0x55, 0xAA, 0x55, 0xAA)
		for j, ch := range chunkScripts {
			if len(b) > 3000 && len(ch) == 1 && ch[0] < 7 {
				continue // the read log of large files in tiny chunks is not recorded
			}
			if !c.thorough() && (i+j)%3 != 0 {
				continue
			}
			rs := readScript{chunks: ch, cut: -1, fault: -1, withEOF: j%2 == 1}
			got := map[string]*Call{}
			for _, api := range []string{"decode", "integrity", "header", "header_fileid", "integrity_hdr"} {
				cl := run(api, trail, rs, fmt.Sprintf("pool[%d] + trailing bytes, chunks %v", i, ch))
				got[api] = cl
				members[cl.ID] = [][]byte{b}
				if (api == "decode" || api == "integrity") && cl.Ret.Err == 0 && cl.Ret.Consumed != len(b) {
					c.report("consumed", fmt.Sprintf("%s consumed %d bytes of a %d-byte file", api, cl.Ret.Consumed, len(b)), cl)
				}
			}
			// the same through a reader that can seek, and Decode with each option set:
			// neither may change what is consumed
			if j == 0 {
				for _, api := range []string{"decode", "integrity", "header", "header_fileid", "integrity_hdr"} {
					cl := run(api, trail, readScript{cut: -1, fault: -1, withSeek: true}, fmt.Sprintf("pool[%d] + trailing bytes, seekable reader", i))
					members[cl.ID] = [][]byte{b}
					if (api == "decode" || api == "integrity") && cl.Ret.Err == 0 && cl.Ret.Consumed != len(b) {
						c.report("consumed", fmt.Sprintf("%s consumed %d bytes of a %d-byte file behind a seekable reader", api, cl.Ret.Consumed, len(b)), cl)
					}
				}
				for o := 1; o < 8; o += 2 + i%2 {
					id++
					cl := p.runCall(id, "decode", trail, rs, CallOpts{UF: o & 1, UM: (o >> 1) & 1, Log: (o >> 2) & 1}, true)
					cl.Note = fmt.Sprintf("pool[%d] + trailing bytes, options %d", i, o)
					calls = append(calls, cl)
					members[cl.ID] = [][]byte{b}
					if cl.Ret.Err == 0 && cl.Ret.Consumed != len(b) {
						c.report("consumed", fmt.Sprintf("Decode with options %+v consumed %d bytes of a %d-byte file", cl.Opts, cl.Ret.Consumed, len(b)), cl)
					}
				}
			}
			// DecodeHeader / DecodeHeaderAndFileID must return what Decode reports
			if d := got["decode"]; d.Ret.Err == 0 && len(d.Ret.Files) == 1 {
				want, _ := json.Marshal(d.Ret.Files[0].Hdr)
				wantID, _ := json.Marshal(d.Ret.Files[0].FileId)
				for _, api := range []string{"header", "header_fileid"} {
					h := got[api]
					if h.Ret.Err == 1 || len(h.Ret.Hdr) != 1 {
						c.report("header-api-fails", api+" fails on a file that Decode accepts", h)
						continue
					}
					if x, _ := json.Marshal(h.Ret.Hdr[0]); string(x) != string(want) {
						c.report("header-differs", api+" returns another header than Decode reports", map[string]interface{}{"api": h, "decode": d})
					}
					if api == "header_fileid" {
						if x, _ := json.Marshal(h.Ret.FileId[0]); string(x) != string(wantID) {
							c.report("fileid-differs", "DecodeHeaderAndFileID returns another file_id than Decode reports", map[string]interface{}{"api": h, "decode": d})
						}
					}
				}
			}
		}
	}
	// boundary frames: no data at all (header + file CRC; CheckIntegrity accepts
	// them, Decode wants a file_id), in all header shapes, followed by a valid
	// file that must still be found where the frame ends
	for hv := 0; hv < 3; hv++ {
		h := []byte{12, 0x10, 0x43, 0x08, 0, 0, 0, 0, '.', 'F', 'I', 'T'}
		if hv > 0 {
			h[0] = 14
			hc := uint16(0)
			if hv == 2 {
				hc = crc16(h)
			}
			h = append(h, byte(hc), byte(hc>>8))
		}
		fc := crc16(h)
		frame := append(append([]byte{}, h...), byte(fc), byte(fc>>8))
		next := pool[hv%len(pool)]
		trail := append(append([]byte{}, frame...), next...)
		for j, ch := range chunkScripts {
			rs := readScript{chunks: ch, cut: -1, fault: -1, withEOF: j%2 == 1}
			for _, api := range []string{"integrity", "integrity_hdr", "header", "decode"} {
				cl := run(api, trail, rs, fmt.Sprintf("frame without data (header shape %d) + a valid file, chunks %v", hv, ch))
				members[cl.ID] = [][]byte{frame}
				if api == "integrity" && cl.Ret.Err == 0 && cl.Ret.Consumed != len(frame) {
					c.report("consumed", fmt.Sprintf("CheckIntegrity consumed %d bytes of a %d-byte frame without data", cl.Ret.Consumed, len(frame)), cl)
				}
			}
		}
	}
	// files whose first records lean on nothing but the file itself (compressed
	// headers or a local time before any timestamp of their own), to be chained
	// behind files that are full of timestamps: nothing may carry over
	var leaning, timed [][]byte
	for v := 0; v < 4; v++ {
		arch := byte(v % 2)
		s := newStream(12+2*(v/2), v/2 == 1)
		s.FileId(0, arch, 4)
		if v != 1 {
			s.Def(1, arch, 20, []FieldDef{{3, 1, 2}}, nil)
			s.Compressed(1, 5+v, []byte{byte(60 + v)})
			s.Compressed(1, 2, []byte{byte(70 + v)})
		}
		if v != 0 {
			s.Def(2, arch, 34, []FieldDef{{5, 4, 0x86}, {1, 2, 0x84}}, nil) // activity: local_timestamp, num_sessions
			s.Data(2, append(wire(u32le(0x39400000+uint32(v)), arch), wire(u16le(1), arch)...))
		}
		s.Def(3, arch, 20, []FieldDef{{253, 4, 0x86}, {3, 1, 2}}, nil)
		s.Data(3, append(wire(u32le(0x39400100), arch), 80))
		leaning = append(leaning, s.Bytes())
	}
	for v := 0; v < 2; v++ {
		arch := byte(v)
		s := newStream(12, false)
		s.FileId(0, arch, 4)
		s.Def(1, arch, 20, []FieldDef{{253, 4, 0x86}, {3, 1, 2}}, nil)
		for r := 0; r < 3; r++ {
			s.Data(1, append(wire(u32le(0x39300007+uint32(37*r)), arch), byte(90+r)))
		}
		timed = append(timed, s.Bytes())
	}
	for _, m := range pool {
		if len(timed) < 5 && len(m) < 3000 {
			timed = append(timed, m)
		}
	}
	var fixedChains [][][]byte
	for _, t := range timed {
		for _, l := range leaning {
			fixedChains = append(fixedChains, [][]byte{t, l})
		}
	}
	fixedChains = append(fixedChains, [][]byte{leaning[0], leaning[1]}, [][]byte{timed[0], leaning[2], leaning[3]})
	// chains: the fixed ones above, then ordered pairs and triples x chunk scripts
	nchains := c.pick(40, 500) + len(fixedChains)
	mismatchAlone := 0
	for i := 0; i < nchains; i++ {
		k := 2 + rng.Intn(2)
		var chainMembers [][]byte
		var all []byte
		if i < len(fixedChains) {
			k = len(fixedChains[i])
			for _, m := range fixedChains[i] {
				chainMembers = append(chainMembers, m)
				all = append(all, m...)
			}
		}
		for j := 0; j < k && i >= len(fixedChains); j++ {
			m := pool[rng.Intn(len(pool))]
			if len(m) > 20000 {
				j--
				continue
			}
			chainMembers = append(chainMembers, m)
			all = append(all, m...)
		}
		ch := chunkScripts[rng.Intn(len(chunkScripts))]
		if len(all) > 3000 && len(ch) == 1 && ch[0] < 7 {
			ch = []int{4096}
		}
		id++
		cl := p.runCall(id, "chained", all, readScript{chunks: ch, cut: -1, fault: -1, withEOF: rng.Intn(2) == 0}, CallOpts{UF: 1, UM: 1}, true)
		cl.Note = fmt.Sprintf("chain of %d, chunks %v", k, ch)
		calls = append(calls, cl)
		members[cl.ID] = chainMembers
		if cl.Ret.Err == 0 && len(cl.Ret.Files) == k {
			for j, m := range chainMembers {
				js, _ := json.Marshal([]*FileProj{cl.Ret.Files[j]})
				if string(js) != aloneProj(m) {
					mismatchAlone++
					c.report("chained-vs-alone", fmt.Sprintf("file #%d of a chain decodes differently from the same bytes decoded alone", j+1),
						map[string]interface{}{"chain": cl, "member": j})
				}
			}
		}
	}
	mm := c.validateCalls(p, sch, calls, 14)
	c.reportFamily(p, mm, nil)
	c.verdictStats(calls)
	c.frameConformance(calls, members)
	c.Cov["pool_files"] = len(pool)
	c.Cov["chains"] = nchains
	c.Cov["chained_vs_alone_differences"] = mismatchAlone
	c.Cov["evaluations"] = len(calls)
	c.Cov["distinct_nontrivial"] = countDistinctInputs(calls)
	c.Cov["rule"] = "valid files (device + generated) followed by trailing bytes x chunk scripts {whole, 1, 2, 3, 7, 4095, 4096, 4097, mixed; with and without data+EOF} x 5 entry points; chains of 2-3 pool files; every Read request, the bytes consumed and every returned file validated by TLC against the Contract"
	c.sample(map[string]interface{}{"kind": "reads of one call", "note": calls[0].Note, "reads": calls[0].Reads[:min(6, len(calls[0].Reads))]})
	c.finish()
}
