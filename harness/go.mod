module verifharness

go 1.21

require (
	github.com/tealeg/xlsx v1.0.3
	github.com/tormoder/fit v0.0.0
)

replace github.com/tormoder/fit => /repo
