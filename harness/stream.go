package main

import (
	"math/rand"
)

// own bit-serial CRC-16/ARC, so that generated inputs do not depend on the
// package under test
func crc16(data []byte) uint16 {
	var r uint16
	for _, b := range data {
		r ^= uint16(b)
		for i := 0; i < 8; i++ {
			if r&1 == 1 {
				r = (r >> 1) ^ 0xA001
			} else {
				r >>= 1
			}
		}
	}
	return r
}

type FieldDef struct {
	Num, Size, Base byte
}

type DevDef struct {
	Num, Size, Idx byte
}

// Stream builds FIT bytes record by record. The record vocabulary is the
// one of spec/FitRef.tla: Definition, Data, CompressedData.
type Stream struct {
	body    []byte
	bounds  []int // end offset (within body) of each record
	defs    [16]*sdef
	hdrSize int
	proto   byte
	profile uint16
	hdrCRC  bool // store a real header CRC (14-byte header); else 0
	toks    []tok
}

// tok is one record as the builder was asked to write it.
type tok struct {
	kind    byte // 'd' definition, 'D' data, 'C' compressed data, 'R' raw
	l       int
	off     int
	def     *sdef // definition written (kind 'd') or in force (data)
	payload []byte
}

type sdef struct {
	arch   byte
	global uint16
	fields []FieldDef
	dev    []DevDef
}

func newStream(hdrSize int, hdrCRC bool) *Stream {
	return &Stream{hdrSize: hdrSize, proto: 0x10, profile: 2115, hdrCRC: hdrCRC}
}

func (s *Stream) endRecord() { s.bounds = append(s.bounds, len(s.body)) }

// Def appends a definition record for local type l.
func (s *Stream) Def(l int, arch byte, global uint16, fields []FieldDef, dev []DevDef) {
	h := byte(0x40 | (l & 0x0F))
	if dev != nil {
		h |= 0x20
	}
	s.body = append(s.body, h, 0, arch)
	if arch == 0 {
		s.body = append(s.body, byte(global), byte(global>>8))
	} else {
		s.body = append(s.body, byte(global>>8), byte(global))
	}
	s.body = append(s.body, byte(len(fields)))
	for _, f := range fields {
		s.body = append(s.body, f.Num, f.Size, f.Base)
	}
	if dev != nil {
		s.body = append(s.body, byte(len(dev)))
		for _, d := range dev {
			s.body = append(s.body, d.Num, d.Size, d.Idx)
		}
	}
	s.defs[l&0x0F] = &sdef{arch, global, fields, dev}
	s.toks = append(s.toks, tok{kind: 'd', l: l & 0x0F, def: s.defs[l&0x0F]})
	s.endRecord()
}

// Data appends a data record for local type l with the given field payloads
// (already in wire order for the definition's architecture).
func (s *Stream) Data(l int, payload []byte) {
	s.body = append(s.body, byte(l&0x0F))
	s.body = append(s.body, payload...)
	s.toks = append(s.toks, tok{kind: 'D', l: l & 0x0F, def: s.defs[l&0x0F], payload: payload})
	s.endRecord()
}

// Compressed appends a compressed-timestamp data record (l in 0..3).
func (s *Stream) Compressed(l int, off int, payload []byte) {
	s.body = append(s.body, byte(0x80|((l&3)<<5)|(off&0x1F)))
	s.body = append(s.body, payload...)
	s.toks = append(s.toks, tok{kind: 'C', l: l & 3, off: off & 0x1F, def: s.defs[l&3], payload: payload})
	s.endRecord()
}

func (s *Stream) Raw(b ...byte) { s.body = append(s.body, b...); s.endRecord() }

// Bytes returns the whole file: header, records, CRC.
func (s *Stream) Bytes() []byte {
	h := []byte{byte(s.hdrSize), s.proto, byte(s.profile), byte(s.profile >> 8),
		byte(len(s.body)), byte(len(s.body) >> 8), byte(len(s.body) >> 16), byte(len(s.body) >> 24), '.', 'F', 'I', 'T'}
	if s.hdrSize == 14 {
		c := uint16(0)
		if s.hdrCRC {
			c = crc16(h)
		}
		h = append(h, byte(c), byte(c>>8))
	}
	out := append(h, s.body...)
	c := crc16(out)
	return append(out, byte(c), byte(c>>8))
}

// RecordEnds returns the absolute end offsets of the records in Bytes().
func (s *Stream) RecordEnds() []int {
	out := make([]int, len(s.bounds))
	for i, b := range s.bounds {
		out[i] = s.hdrSize + b
	}
	return out
}

// wire encodes a little-endian value of width w for architecture arch.
func wire(le []byte, arch byte) []byte {
	out := make([]byte, len(le))
	copy(out, le)
	if arch == 1 {
		for i, j := 0, len(out)-1; i < j; i, j = i+1, j-1 {
			out[i], out[j] = out[j], out[i]
		}
	}
	return out
}

func u32le(v uint32) []byte { return []byte{byte(v), byte(v >> 8), byte(v >> 16), byte(v >> 24)} }
func u16le(v uint16) []byte { return []byte{byte(v), byte(v >> 8)} }

// FileIdRecord adds the mandatory file_id definition + data (local type l).
func (s *Stream) FileId(l int, arch byte, fileType byte) {
	s.Def(l, arch, 0, []FieldDef{{0, 1, 0x00}, {1, 2, 0x84}, {4, 4, 0x86}}, nil)
	p := []byte{fileType}
	p = append(p, wire(u16le(1), arch)...)
	p = append(p, wire(u32le(0x3B9ACA00), arch)...)
	s.Data(l, p)
}

// randomValue returns w bytes drawn from boundary and random patterns.
func randomValue(rng *rand.Rand, w int) []byte {
	b := make([]byte, w)
	switch rng.Intn(8) {
	case 0: // zero
	case 1:
		b[0] = 1
	case 2:
		for i := range b {
			b[i] = 0xFF
		}
	case 3: // signed invalid / max positive
		for i := range b {
			b[i] = 0xFF
		}
		b[w-1] = 0x7F
	case 4: // sign bit only
		b[w-1] = 0x80
	case 5:
		for i := range b {
			b[i] = 0xFF
		}
		b[0] = 0xFE
	default:
		rng.Read(b)
	}
	return b
}

// Control returns the same records with every data record preceded by its
// own definition on local type 0: no record depends on slot memory.
func (s *Stream) Control() *Stream {
	c := newStream(s.hdrSize, s.hdrCRC)
	c.proto, c.profile = s.proto, s.profile
	for _, t := range s.toks {
		switch t.kind {
		case 'D':
			if t.def == nil {
				return nil
			}
			c.Def(0, t.def.arch, t.def.global, t.def.fields, t.def.dev)
			c.Data(0, t.payload)
		case 'C':
			if t.def == nil {
				return nil
			}
			c.Def(0, t.def.arch, t.def.global, t.def.fields, t.def.dev)
			c.Compressed(0, t.off, t.payload)
		}
	}
	return c
}

// Without returns the same records minus everything written for local type l
// (its definitions and its data records): what the other local types carry
// must decode the same with and without them.
func (s *Stream) Without(l int) *Stream {
	c := newStream(s.hdrSize, s.hdrCRC)
	c.proto, c.profile = s.proto, s.profile
	for _, t := range s.toks {
		if t.l == l {
			continue
		}
		switch t.kind {
		case 'd':
			c.Def(t.l, t.def.arch, t.def.global, t.def.fields, t.def.dev)
		case 'D':
			c.Data(t.l, t.payload)
		case 'C':
			c.Compressed(t.l, t.off, t.payload)
		default:
			return nil
		}
	}
	return c
}
