package main

import (
	"bytes"
	"encoding/json"
	"fmt"
	"path/filepath"
	"reflect"
	"regexp"
	"strconv"
	"strings"

	"github.com/tealeg/xlsx"
	"github.com/tormoder/fit"
)

type tField struct {
	PField
	GoKind      string `json:"gokind"`
	GoBits      int    `json:"gobits"`
	GoSlice     int    `json:"goslice"`
	FName       string `json:"fname"`
	Norm        string `json:"norm"`
	CtorPresent int    `json:"ctorpresent"`
	Idx         int    `json:"idx"` // position of the entry in the table row (the wire number the decoder looks it up by)
}

type tMsg struct {
	M       int      `json:"m"`
	Name    string   `json:"name"`
	HasCtor int      `json:"hasctor"`
	CtorTyp string   `json:"ctortype"`
	HasType int      `json:"hastype"`
	NF      int      `json:"nf"`
	IsKnown int      `json:"isknown"`
	Fields  []tField `json:"fields"`
}

var reNonAlnum = regexp.MustCompile(`[^a-z0-9]`)

func normName(s string) string { return reNonAlnum.ReplaceAllString(strings.ToLower(s), "") }

func goKindOf(t reflect.Type) (kind string, bits, slice int) {
	switch t {
	case timeType:
		return "time", 0, 0
	case latType:
		return "lat", 0, 0
	case lngType:
		return "lng", 0, 0
	}
	if t.Kind() == reflect.Slice {
		k, b, _ := goKindOf(t.Elem())
		return k, b, 1
	}
	switch t.Kind() {
	case reflect.Uint8, reflect.Uint16, reflect.Uint32, reflect.Uint64:
		return "uint", int(t.Size()) * 8, 0
	case reflect.Int8, reflect.Int16, reflect.Int32, reflect.Int64:
		return "int", int(t.Size()) * 8, 0
	case reflect.Float32, reflect.Float64:
		return "float", int(t.Size()) * 8, 0
	case reflect.String:
		return "string", 0, 0
	}
	return "other:" + t.Kind().String(), 0, 0
}

// exportTables reads the compiled-in tables through the verif hook and reflection.
func exportTables(p *Profile, sch *Schema) map[string]interface{} {
	known := map[int]bool{}
	for _, m := range fit.VerifKnownMesgNums() {
		known[int(m)] = true
	}
	var msgs []tMsg
	var rows []int
	for m := 0; m < fit.VerifTableLen(); m++ {
		fs := fit.VerifFields(fit.MesgNum(m))
		n := 0
		for _, f := range fs {
			if f != nil {
				n++
			}
		}
		if n == 0 && !known[m] {
			continue
		}
		rows = append(rows, m)
		tm := tMsg{M: m, IsKnown: b2i(known[m]), Fields: []tField{}}
		t := fit.VerifMesgType(fit.MesgNum(m))
		if t != nil && t.Kind() != reflect.Struct {
			// something else than the message struct is registered (a pointer type ...): reported as "no type"
			tm.Name = t.String()
			t = nil
		}
		if t != nil {
			tm.HasType, tm.Name, tm.NF = 1, t.Name(), t.NumField()
		}
		tm.HasCtor = b2i(fit.VerifHasConstructor(fit.MesgNum(m)))
		var ctor reflect.Value
		if known[m] && tm.HasCtor == 1 {
			ctor = fit.VerifNewMesg(fit.MesgNum(m))
			tm.CtorTyp = ctor.Type().Name()
			if t != nil && ctor.Type() != t {
				ctor = reflect.Value{} // the constructor builds another type: reported by TLC; nothing to read field by field
			}
		}
		for fi, f := range fs {
			if f == nil {
				continue
			}
			a := b2i(f.Array)
			tf := tField{Idx: fi, PField: PField{N: int(f.Num), S: f.Sindex, B: int(f.Base & 0x1F), A: a, K: int(f.Kind), L: int(f.Length), T: int(f.Type)}}
			if t != nil && f.Sindex >= 0 && f.Sindex < t.NumField() {
				sf := t.Field(f.Sindex)
				tf.FName, tf.Norm = sf.Name, normName(sf.Name)
				tf.GoKind, tf.GoBits, tf.GoSlice = goKindOf(sf.Type)
				if ctor.IsValid() {
					_, present := fieldBytes(ctor.Field(f.Sindex), &tf.PField)
					tf.CtorPresent = b2i(present)
				}
			} else {
				tf.GoKind = "no such struct field"
			}
			tm.Fields = append(tm.Fields, tf)
		}
		msgs = append(msgs, tm)
	}
	for m := range known {
		if m >= fit.VerifTableLen() {
			msgs = append(msgs, tMsg{M: m, IsKnown: 1, Fields: []tField{}, Name: "beyond the table"})
		}
	}
	type slot struct {
		Container string `json:"container"`
		Slot      string `json:"slot"`
		M         int    `json:"m"`
		GoType    string `json:"gotype"`  // the member's struct type
		RegType   string `json:"regtype"` // the struct type registered for the message number that type resolves to
	}
	slots := []slot{}
	for _, st := range sch.Types {
		for _, s := range st.Slots {
			reg := ""
			if t := fit.VerifMesgType(fit.MesgNum(s.M)); t != nil {
				reg = t.Name()
			}
			slots = append(slots, slot{st.Name, s.Name, s.M, s.GoType, reg})
		}
	}
	return map[string]interface{}{"msgs": msgs, "rows": rows, "slots": slots}
}

type sdkRow struct {
	M    int    `json:"m"`
	N    int    `json:"n"`
	Name string `json:"name"`
	B    int    `json:"b"`
	A    int    `json:"a"`
	K    int    `json:"k"` // 1 date_time, 2 local_date_time, 0 anything else
}

var baseIdxByName = map[string]int{"enum": 0, "sint8": 1, "uint8": 2, "sint16": 3, "uint16": 4, "sint32": 5, "uint32": 6, "string": 7,
	"float32": 8, "float64": 9, "uint8z": 10, "uint16z": 11, "uint32z": 12, "byte": 13, "sint64": 14, "uint64": 15, "uint64z": 16, "bool": 0}

// readWorkbook reads a Profile.xlsx with the xlsx library directly.
func readWorkbook(path string) (rows []sdkRow, err error) {
	wb, err := xlsx.OpenBinary(mustRead(path))
	if err != nil {
		return nil, err
	}
	cell := func(r *xlsx.Row, i int) string {
		if r == nil || i >= len(r.Cells) {
			return ""
		}
		return strings.TrimSpace(r.Cells[i].String())
	}
	// types sheet: type name -> base type; mesg_num values
	typeBase := map[string]string{}
	mesgNum := map[string]int{}
	cur := ""
	for _, r := range wb.Sheets[0].Rows[1:] {
		if n := cell(r, 0); n != "" {
			cur = n
			typeBase[n] = cell(r, 1)
			continue
		}
		if cur == "mesg_num" {
			if v, err := strconv.Atoi(cell(r, 3)); err == nil {
				mesgNum[cell(r, 2)] = v
			}
		}
	}
	curMsg := -1
	for _, r := range wb.Sheets[1].Rows[1:] {
		if n := cell(r, 0); n != "" {
			if v, ok := mesgNum[n]; ok {
				curMsg = v
			} else {
				curMsg = -1
			}
			continue
		}
		num := cell(r, 1)
		if num == "" || curMsg < 0 {
			continue // sub-field or separator
		}
		n, err := strconv.Atoi(num)
		if err != nil {
			continue
		}
		typ := cell(r, 3)
		bt := typ
		if b, ok := typeBase[typ]; ok {
			bt = b
		}
		bi, ok := baseIdxByName[bt]
		if !ok {
			continue
		}
		a := 0
		if cell(r, 4) != "" {
			a = 1
		}
		k := 0
		switch typ {
		case "date_time":
			k = 1
		case "local_date_time":
			k = 2
		}
		rows = append(rows, sdkRow{M: curMsg, N: n, Name: normName(cell(r, 2)), B: bi, A: a, K: k})
	}
	return rows, nil
}

// C15: profile tables, message structs and all-invalid constructors agree everywhere.
func runC15(c *Ctx) {
	p := exportProfile()
	sch := exportSchema()
	c.Level = "model_checking"
	c.Assume = []string{
		"Trace_Tables.tla states ProfileWellFormed over constants exported from the compiled program at every run (verif hook + reflection); TLC evaluates it entry by entry",
		"SDK agreement is checked against the newest bundled workbook (21.40), read by the harness with the xlsx library; the workbook of the declared version 21.115 is not available offline, so fields that only exist there are checked for internal consistency only",
		"\"no reflection access can fail\": additionally every hosted (message, field) goes through the real decoder once and through the real encoder once, under recover",
	}
	tab := exportTables(p, sch)
	sdk, err := readWorkbook(filepath.Join(repoDir, "cmd/fitgen/internal/profile/testdata/21.40.xlsx"))
	if err != nil {
		c.die("cannot read the 21.40 workbook: %v", err)
	}
	tab["sdk"] = sdk
	tj, _ := json.Marshal(tab)
	cfg := "SPECIFICATION TSpec\nPOSTCONDITION Post\nCHECK_DEADLOCK FALSE\n"
	r := c.runTLC(TLCRun{Module: "Trace_Tables", Cfg: cfg, Files: map[string][]byte{"tables.json": tj}, Workers: 1, HeapGB: 4})
	c.account(r)
	mm, e2 := readNDJSON(filepath.Join(r.Dir, "mismatch.ndjson"))
	if e2 != nil || !strings.Contains(r.Out, "\"TRACES\"") {
		c.die("TLC Trace_Tables exit %d\n%s", r.Exit, c.tlcTail(r))
	}
	for _, m := range mm {
		c.report(fmt.Sprintf("tables:%v:m%v.f%v", m["what"], m["m"], m["n"]), fmt.Sprintf("the compiled tables violate ProfileWellFormed: %v", m), m)
	}
	if len(mm) > 0 {
		// the tables are inconsistent: pushing messages through the decoder and
		// encoder by reflection would only re-discover that (or trip the harness)
		c.Cov["evaluations"] = len(tab["msgs"].([]tMsg))
		c.Cov["distinct_nontrivial"] = len(tab["msgs"].([]tMsg))
		c.Cov["rule"] = "table entries (run stopped at the first inconsistencies)"
		c.sample(mm[0])
		c.finish()
	}
	msgs := tab["msgs"].([]tMsg)
	nf, matched := 0, 0
	have := map[[2]int]bool{}
	for _, tm := range msgs {
		nf += len(tm.Fields)
		for _, f := range tm.Fields {
			have[[2]int{tm.M, f.N}] = true
		}
	}
	for _, row := range sdk {
		if have[[2]int{row.M, row.N}] {
			matched++
		}
	}
	c.Traces += int64(len(msgs))
	// every hosted field through decoder and encoder, under recover
	streams := systematicStreams(p, sch, c.Seed, 1)
	panics := 0
	for _, s := range streams {
		func() {
			defer func() {
				if x := recover(); x != nil {
					panics++
					c.report("reflection-panic:decode", fmt.Sprintf("decoding a profile-compatible single-field stream panics: %v", x), map[string]interface{}{"input": toInts(s.Bytes())})
				}
			}()
			fit.Decode(bytes.NewReader(s.Bytes()))
		}()
	}
	id := 0
	enc, _ := encodeEvents(c, p, sch, &id, 1, true, false)
	for _, cl := range enc {
		if cl.Ret.Panic == 1 {
			panics++
			c.report("reflection-panic:encode", "encoding a File with one field set panics: "+cl.Ret.PanicMsg, cl)
		}
	}
	// the tables are constants: after the decoder and the encoder have been used
	// (also with arrays and strings longer than the profile says) they must
	// still be what was checked above
	id2 := 100000
	encodeEvents(c, p, sch, &id2, 1, false, true)
	for _, ft := range []int{4, 2, 34} {
		g := &fileGen{rng: newRng(c.Seed + int64(ft)), p: p, density: 0.9, maxList: 3, long: true, odd: true}
		for k := 0; k < 6; k++ {
			func() {
				defer func() { recover() }()
				var buf bytes.Buffer
				fit.Encode(&buf, g.File(ft, k%2 == 0, -1, -1), archOf(k))
			}()
		}
	}
	after := exportTables(p, sch)
	aj, _ := json.Marshal(after["msgs"])
	bj, _ := json.Marshal(tab["msgs"])
	if !bytes.Equal(aj, bj) {
		diff := "?"
		am, _ := after["msgs"].([]tMsg)
		for i := range msgs {
			if i < len(am) {
				x, _ := json.Marshal(am[i])
				y, _ := json.Marshal(msgs[i])
				if !bytes.Equal(x, y) {
					diff = fmt.Sprintf("message %d (%s)", msgs[i].M, msgs[i].Name)
					break
				}
			}
		}
		c.report("tables:changed-at-run-time", "the profile tables are not the same after the library has been used (Encode / Decode changed a lookup-table entry): "+diff, map[string]interface{}{"where": diff})
	}
	c.Cov["tables_unchanged_after_use"] = bytes.Equal(aj, bj)
	c.Cov["messages"] = len(msgs)
	c.Cov["table_entries"] = nf
	c.Cov["sdk_rows_read"] = len(sdk)
	c.Cov["table_entries_matched_with_sdk_rows"] = matched
	c.Cov["fields_pushed_through_decoder_streams"] = len(streams)
	c.Cov["single_field_files_encoded"] = len(enc)
	c.Cov["evaluations"] = nf + len(enc) + len(streams)
	c.Cov["distinct_nontrivial"] = nf
	c.Cov["exhaustive"] = true
	c.Cov["rule"] = "every (message, field) entry of the compiled lookup tables and every file-container member; distinct = table entries"
	c.sample(msgs[0])
	c.finish()
}
