package main

import (
	"encoding/json"
	"fmt"
	"os"
)

// vcheck <property> replay <path>: re-executes the call recorded in a replay
// file against the tree as it is now, with the same reader behaviour (the
// recorded chunk sizes, cut or fault point), and validates it again with TLC
// against the Contract. Exit 1 (and the mismatches) if it still disagrees,
// exit 0 if it no longer does, exit 2 for replay records that carry no single
// recorded call (histories, schedules, table entries: re-run the check).
func runReplay(id, path string) {
	b, err := os.ReadFile(path)
	if err != nil {
		fmt.Printf("CHECK-ERROR cannot read %s: %v\n", path, err)
		os.Exit(2)
	}
	var v struct {
		What   string          `json:"what"`
		Sig    string          `json:"sig"`
		Replay json.RawMessage `json:"replay"`
	}
	if err := json.Unmarshal(b, &v); err != nil {
		fmt.Printf("CHECK-ERROR %s: %v\n", path, err)
		os.Exit(2)
	}
	fmt.Printf("recorded: %s [%s]\n", v.What, v.Sig)
	var call *Call
	var wrap map[string]json.RawMessage
	if json.Unmarshal(v.Replay, &wrap) == nil {
		for _, k := range []string{"call", "encode", "decode", "chain", "with_options"} {
			if raw, ok := wrap[k]; ok {
				var cl Call
				if json.Unmarshal(raw, &cl) == nil && cl.API != "" && len(cl.Input) > 0 {
					call = &cl
					break
				}
			}
		}
	}
	if call == nil {
		var cl Call
		if json.Unmarshal(v.Replay, &cl) == nil && cl.API != "" && len(cl.Input) > 0 {
			call = &cl
		}
	}
	if call == nil || call.API == "encode" {
		fmt.Println("CHECK-ERROR this replay record holds no single recorded decoding call; re-run the check to reproduce it")
		os.Exit(2)
	}
	in := make([]byte, len(call.Input))
	for i, x := range call.Input {
		in[i] = byte(x)
	}
	rs := readScript{cut: -1, fault: -1}
	for _, r := range call.Reads {
		if len(r) == 3 && r[1] > 0 {
			rs.chunks = append(rs.chunks, r[1])
		}
		if len(r) == 3 && r[1] > 0 && r[2] == rEOF {
			rs.withEOF = true
		}
		if len(r) == 3 && r[1] > 0 && r[2] == rFault {
			rs.withErr = true
		}
	}
	if call.Fault == 1 {
		rs.fault = call.Avail
	} else if call.Avail < len(in) {
		rs.cut = call.Avail
	}
	c := newCtx(id, "quick", "model_checking")
	outDir = c.scratchDir() // a replay does not rewrite the evidence file
	p := exportProfile()
	sch := exportSchema()
	cl := p.runCall(1, call.API, in, rs, call.Opts, true)
	cl.Note = "replay of " + path
	fmt.Printf("now: err=%d panic=%d hang=%d consumed=%d files=%d %s%s\n", cl.Ret.Err, cl.Ret.Panic, cl.Ret.Hang, cl.Ret.Consumed, len(cl.Ret.Files), cl.Ret.ErrText, cl.Ret.PanicMsg)
	mm := c.validateCalls(p, sch, []*Call{cl}, 1)
	fmt.Printf("contract: %s (%s)\n", cl.Final, cl.Why)
	for _, m := range mm {
		fmt.Printf("  disagrees: %v\n", m.Rec)
	}
	c.cleanup()
	if len(mm) > 0 || cl.Ret.Panic == 1 || cl.Ret.Hang == 1 {
		fmt.Printf("VIOLATION property=%s replay=%s\n", id, path)
		os.Exit(1)
	}
	fmt.Println("the recorded call agrees with the Contract on this tree")
	os.Exit(0)
}
