package main

import (
	"math/rand"
	"sort"
)

// Profile-driven stream generator: produces well-formed, profile-compatible
// FIT streams (the Contract's "accept" class) that exercise every message,
// field, compatible definition variant, byte order, local-type reuse,
// compressed headers, unknown items and developer fields.

type genKnobs struct {
	nrec        int
	fileType    int     // -1: random among the 17
	msgs        []int   // candidate known messages (nil: hosted-weighted mix of all)
	pDef        float64 // probability that a step (re)defines a slot
	pUnknownMsg float64
	pUnknownFld float64
	pDev        float64
	pCompressed float64
	pNarrow     float64 // narrower-but-compatible definition types
	pBigEndian  float64
	maxFields   int
	slots       []int // local types to use
	pZeroFields float64
	pInvalid    float64 // field value = invalid
	noTimeNoise bool    // keep timestamps plausible (reference always pinned)
	pTimeBack   float64 // timestamps step backwards (still plausible): later messages are not always newer
	allFields   bool    // every definition of a known message carries all its fields
}

func defaultKnobs() genKnobs {
	return genKnobs{nrec: 30, fileType: -1, pDef: 0.3, pUnknownMsg: 0.1, pUnknownFld: 0.15, pDev: 0.1,
		pCompressed: 0.2, pNarrow: 0.3, pBigEndian: 0.5, maxFields: 8, slots: []int{0, 1, 2, 3, 5, 15}, pZeroFields: 0.02, pInvalid: 0.1}
}

type generator struct {
	rng *rand.Rand
	p   *Profile
	sch *Schema
	k   genKnobs
	now uint32
}

var unsignedIdx = []int{0, 2, 10, 13, 4, 11, 6, 12}
var signedIdx = []int{1, 3, 5}

func (g *generator) compatBase(pf *PField) (idx int) {
	if g.rng.Float64() >= g.k.pNarrow {
		return pf.B
	}
	w := baseSize[pf.B]
	cands := unsignedIdx
	if baseSigned[pf.B] {
		cands = signedIdx
	}
	var ok []int
	for _, c := range cands {
		if baseSize[c] <= w {
			ok = append(ok, c)
		}
	}
	return ok[g.rng.Intn(len(ok))]
}

// fieldDefFor chooses a compatible definition for profile field pf.
func (g *generator) fieldDefFor(pf *PField) FieldDef {
	switch {
	case pf.K == 1 || pf.K == 2:
		return FieldDef{byte(pf.N), 4, 0x86}
	case pf.K == 3 || pf.K == 4:
		return FieldDef{byte(pf.N), 4, 0x85}
	case pf.B == 7:
		return FieldDef{byte(pf.N), byte(1 + g.rng.Intn(24)), 0x07}
	case pf.A == 1:
		n := 1 + g.rng.Intn(6)
		return FieldDef{byte(pf.N), byte(n * baseSize[pf.B]), baseByte[pf.B]}
	}
	b := g.compatBase(pf)
	return FieldDef{byte(pf.N), byte(baseSize[b]), baseByte[b]}
}

func (g *generator) unknownFieldDef(m int) (FieldDef, bool) {
	for try := 0; try < 20; try++ {
		n := g.rng.Intn(253)
		if g.p.field(m, n) != nil {
			continue
		}
		b := g.rng.Intn(17)
		k := 1 + g.rng.Intn(3)
		if baseSize[b]*k > 255 {
			k = 1
		}
		if b == 7 && g.rng.Intn(3) == 0 {
			k = 0 // a string field of size 0: listed in the definition, carries nothing
		}
		return FieldDef{byte(n), byte(baseSize[b] * k), baseByte[b]}, true
	}
	return FieldDef{}, false
}

func (g *generator) unknownMsgNum() int {
	for {
		var m int
		switch g.rng.Intn(3) {
		case 0:
			m = 0xFF00 + g.rng.Intn(0xFE)
		case 1:
			m = g.rng.Intn(400)
		default:
			m = 400 + g.rng.Intn(60000)
		}
		if g.p.by[m] == nil && m != 0xFFFF {
			return m
		}
	}
}

func (g *generator) hosted(t int) []int {
	var out []int
	for _, st := range g.sch.Types {
		if st.T == t {
			for _, s := range st.Slots {
				out = append(out, s.M)
			}
		}
	}
	return out
}

func (g *generator) pickMsg(t int) int {
	if len(g.k.msgs) > 0 {
		return g.k.msgs[g.rng.Intn(len(g.k.msgs))]
	}
	h := g.hosted(t)
	if len(h) > 0 && g.rng.Intn(10) < 7 {
		if m := h[g.rng.Intn(len(h))]; g.p.by[m] != nil {
			return m
		}
	}
	return g.p.Msgs[g.rng.Intn(len(g.p.Msgs))].M
}

func (g *generator) timeValue(local bool) uint32 {
	if !g.k.noTimeNoise {
		switch g.rng.Intn(25) {
		case 0:
			return 0xFFFFFFFF
		case 1:
			return uint32(g.rng.Intn(0x10000000))
		case 2:
			return 0
		case 3:
			return 0xFFFFFF00 + uint32(g.rng.Intn(255))
		}
	}
	if g.k.pTimeBack > 0 && g.rng.Float64() < g.k.pTimeBack {
		g.now -= uint32(g.rng.Intn(5000))
	} else {
		g.now += uint32(g.rng.Intn(40))
	}
	if local {
		return g.now + uint32(g.rng.Intn(2*86400)) - 86400
	}
	return g.now
}

func (g *generator) payloadFor(d *sdef) []byte {
	var out []byte
	for _, f := range d.fields {
		pf := g.p.field(int(d.global), int(f.Num))
		idx := int(f.Base & 0x1F)
		es := baseSize[idx]
		switch {
		case pf != nil && (pf.K == 1 || pf.K == 2):
			out = append(out, wire(u32le(g.timeValue(pf.K == 2)), d.arch)...)
		case pf != nil && (pf.K == 3 || pf.K == 4) && f.Size == 4 && g.rng.Intn(6) == 0:
			// the ends of the coordinate ranges: exactly -90 / just below +90 degrees, +-180
			v := []uint32{0xC0000000, 0x3FFFFFFF, 0xC0000001, 0x3FFFFFFE, 0x80000001, 0x7FFFFFFE, 0xFFFFFFFF, 0}[g.rng.Intn(8)]
			out = append(out, wire(u32le(v), d.arch)...)
		case f.Base == 0x07:
			// strings: printable + NULs, sometimes unterminated, sometimes UTF-8
			b := make([]byte, f.Size)
			for i := range b {
				switch g.rng.Intn(6) {
				case 0:
					b[i] = 0
				default:
					b[i] = byte('a' + g.rng.Intn(26))
				}
			}
			if g.rng.Intn(4) == 0 && len(b) >= 2 {
				copy(b, "\xc3\xa9")
			}
			if g.rng.Intn(12) == 0 {
				// nothing but continuation bytes, up to a NUL or the end of the field
				for i := range b {
					b[i] = byte(0x80 + g.rng.Intn(0x40))
				}
				if len(b) > 1 && g.rng.Intn(2) == 0 {
					b[len(b)-1] = 0
				}
			}
			out = append(out, b...)
		default:
			for off := 0; off+es <= int(f.Size); off += es {
				v := randomValue(g.rng, es)
				if f.Num == 254 && es == 2 && g.rng.Intn(4) != 0 {
					v = u16le(uint16(g.rng.Intn(4))) // message_index: small, repeating, in no particular order
				}
				if g.rng.Float64() < g.k.pInvalid {
					copy(v, baseInvalid(idx))
				}
				out = append(out, wire(v, d.arch)...)
			}
		}
	}
	for _, dv := range d.dev {
		b := make([]byte, dv.Size)
		g.rng.Read(b)
		out = append(out, b...)
	}
	return out
}

func (g *generator) arch() byte {
	if g.rng.Float64() < g.k.pBigEndian {
		return 1
	}
	return 0
}

// define (re)defines local slot l.
func (g *generator) define(s *Stream, l, t int) {
	// a device may send the very same definition again - or the same field
	// list for another byte order or another message: nothing of the earlier
	// definition may be taken over on the strength of a partial comparison
	if d := s.defs[l]; d != nil && d.global != 0 && g.rng.Intn(8) == 0 {
		switch g.rng.Intn(3) {
		case 0:
			s.Def(l, d.arch, d.global, d.fields, d.dev)
		case 1:
			s.Def(l, 1-d.arch, d.global, d.fields, d.dev)
		default:
			if d.dev == nil {
				s.Def(l, d.arch, uint16(g.unknownMsgNum()), d.fields, nil) // same triples for a message without profile
			} else {
				s.Def(l, 1-d.arch, d.global, d.fields, d.dev)
			}
		}
		return
	}
	arch := g.arch()
	var dev []DevDef
	if g.rng.Float64() < g.k.pDev {
		dev = []DevDef{}
		for i := g.rng.Intn(3); i >= 0; i-- {
			dev = append(dev, DevDef{byte(g.rng.Intn(10)), byte(g.rng.Intn(6)), byte(g.rng.Intn(2))})
		}
		if g.rng.Intn(10) == 0 {
			// a lot of developer data in one record
			for i := 3 + g.rng.Intn(3); i >= 0; i-- {
				dev = append(dev, DevDef{byte(20 + i), byte(200 + g.rng.Intn(56)), 0})
			}
		}
	}
	if g.rng.Float64() < g.k.pUnknownMsg {
		m := g.unknownMsgNum()
		var fs []FieldDef
		used := map[byte]bool{}
		for i := g.rng.Intn(4); i >= 0; i-- {
			b := g.rng.Intn(17)
			n := byte(g.rng.Intn(254))
			if used[n] {
				continue
			}
			used[n] = true
			fs = append(fs, FieldDef{n, byte(baseSize[b] * (1 + g.rng.Intn(2))), baseByte[b]})
		}
		s.Def(l, arch, uint16(m), fs, dev)
		return
	}
	m := g.pickMsg(t)
	pm := g.p.by[m]
	var fs []FieldDef
	if g.rng.Float64() >= g.k.pZeroFields {
		perm := g.rng.Perm(len(pm.Fields))
		n := 1 + g.rng.Intn(g.k.maxFields)
		if g.rng.Intn(12) == 0 || g.k.allFields {
			n = len(pm.Fields)
		}
		if n > len(perm) {
			n = len(perm)
		}
		for _, i := range perm[:n] {
			fs = append(fs, g.fieldDefFor(&pm.Fields[i]))
		}
		used := map[byte]bool{}
		for g.rng.Float64() < g.k.pUnknownFld {
			if fd, ok := g.unknownFieldDef(m); ok && !used[fd.Num] {
				used[fd.Num] = true
				fs = append(fs, fd)
			}
		}
		// keep the total record size within a byte-count the field count allows
		g.rng.Shuffle(len(fs), func(i, j int) { fs[i], fs[j] = fs[j], fs[i] })
		// the timestamp usually comes first on real devices
		if g.rng.Intn(3) > 0 {
			sort.SliceStable(fs, func(i, j int) bool { return fs[i].Num == 253 && fs[j].Num != 253 })
		}
	}
	s.Def(l, arch, uint16(m), fs, dev)
}

// Generate returns one stream.
func (g *generator) Generate() *Stream {
	t := g.k.fileType
	if t < 0 {
		t = g.sch.Types[g.rng.Intn(len(g.sch.Types))].T
	}
	hs := 12 + 2*g.rng.Intn(2)
	s := newStream(hs, g.rng.Intn(2) == 0)
	g.now = 0x30000000 + uint32(g.rng.Intn(0x10000000))
	s.FileId(g.k.slots[g.rng.Intn(len(g.k.slots))], g.arch(), byte(t))
	for i := 0; i < g.k.nrec; i++ {
		var defined []int
		for _, l := range g.k.slots {
			if s.defs[l] != nil {
				defined = append(defined, l)
			}
		}
		if g.rng.Float64() < g.k.pDef || len(defined) == 0 {
			g.define(s, g.k.slots[g.rng.Intn(len(g.k.slots))], t)
			continue
		}
		l := defined[g.rng.Intn(len(defined))]
		d := s.defs[l]
		if l <= 3 && g.rng.Float64() < g.k.pCompressed {
			s.Compressed(l, g.rng.Intn(32), g.payloadFor(d))
		} else {
			s.Data(l, g.payloadFor(d))
		}
	}
	return s
}
