package main

import (
	"bytes"
	"encoding/json"
	"fmt"
	"io"
	"math/rand"
	"strings"
	"sync"
	"sync/atomic"
	"testing/iotest"
	"time"

	"github.com/tormoder/fit"
	"github.com/tormoder/fit/dyncrc16"
)

// C14: the checksum is CRC-16/ARC and does not depend on how data is fed.
func runC14(c *Ctx) {
	c.Level = "model_checking"
	c.Assume = []string{
		"TLC evaluates the bit-serial definition (Crc16!BitStep) correctly; the Bitwise community module is trusted",
		"the hash object's only state is the 16-bit register that Sum16 exposes (every register value is reached through a 2-byte prefix)",
	}
	// 1. TLC: exhaustive lemmas, table export.
	table := c14Lemmas(c)

	// 2. All 65536 x 256 transitions of the real code against the table
	//    TLC derived from the bit-serial definition.
	c14Transitions(c, table)

	// 3. Streaming machine: exhaustive small model + trace validation.
	c14StreamMC(c)
	c14StreamTraces(c)
	c14Concurrent(c)
	c.finish()
}

func c14Lemmas(c *Ctx) []int {
	slices := 1
	bytesSet, lin, msgLen, aligns := "Q_Bytes", "Q_Lin", 4, "Q_Aligns"
	if c.thorough() {
		slices = 16
		bytesSet, lin, msgLen, aligns = "T_Bytes", "T_Lin", 6, "T_Aligns"
	}
	type out struct {
		res *TLCResult
		st  struct {
			StepPairs    int64 `json:"step_pairs"`
			ResidueMsgs  int64 `json:"residue_msgs"`
			BurstWindows int64 `json:"burst_windows"`
			Table        []int `json:"table"`
		}
	}
	results := make([]out, slices)
	done := make(chan int, slices)
	for i := 0; i < slices; i++ {
		go func(i int) {
			lo, hi := i*65536/slices, (i+1)*65536/slices-1
			// only slice 0 carries the (state-independent) other lemmas at full size
			ml, al, ln := msgLen, aligns, lin
			if i > 0 {
				ml, al, ln = 1, "Q_Aligns0", "Q_Lin"
			}
			cfg := fmt.Sprintf("CONSTANTS\n States <- SliceStates\n SliceLo = %d\n SliceHi = %d\n ByteSet <- %s\n LinStates <- %s\n MsgLen = %d\n Alphabet <- Q_Alpha\n BurstAligns <- %s\n OutFile = \"crc_out.json\"\nINIT Init\nNEXT Next\n",
				lo, hi, bytesSet, ln, ml, al)
			r := c.runTLC(TLCRun{Module: "MC_Crc16", Cfg: cfg, Workers: 1, HeapGB: 3, Timeout: 30 * time.Minute})
			results[i].res = r
			done <- i
		}(i)
	}
	for i := 0; i < slices; i++ {
		<-done
	}
	var table []int
	var pairs, msgs, windows int64
	for i := range results {
		r := results[i].res
		if r.Exit != 0 {
			if strings.Contains(r.Out, "Assumption") && strings.Contains(r.Out, "is false") {
				// A lemma about the specification itself failed: the spec's
				// transcription of the code's table differs from the
				// definition. Decide against the real code below; report here.
				c.report("crc16-lemma", "TLC: a Crc16 lemma (StepEquiv/Linear/Residue/ZeroKeeps/Burst) is false for the transcribed nibble table:\n"+c.tlcTail(r), nil)
				continue
			}
			c.die("TLC MC_Crc16 slice %d exit %d\n%s", i, r.Exit, c.tlcTail(r))
		}
		b, err := readFile(r.Dir, "crc_out.json")
		if err != nil {
			c.die("crc_out.json: %v", err)
		}
		if err := json.Unmarshal(b, &results[i].st); err != nil {
			c.die("crc_out.json: %v", err)
		}
		pairs += results[i].st.StepPairs
		if i == 0 {
			msgs, windows, table = results[i].st.ResidueMsgs, results[i].st.BurstWindows, results[i].st.Table
		}
		c.account(r)
	}
	if len(table) != 256 {
		c.die("no table from TLC")
	}
	c.Cov["tlc_step_pairs_checked"] = pairs
	c.Cov["tlc_residue_messages"] = msgs
	c.Cov["tlc_burst_windows"] = windows
	c.Cov["exhaustive"] = pairs == 65536*256
	return table
}

func c14Transitions(c *Ctx, T []int) {
	// prefix (p0,p1) -> state map must be a bijection onto 0..65535.
	seen := make([]int32, 65536)
	for i := range seen {
		seen[i] = -1
	}
	for p := 0; p < 65536; p++ {
		s := dyncrc16.Checksum([]byte{byte(p), byte(p >> 8)})
		if seen[s] >= 0 {
			// not a bijection: the CRC of two distinct 2-byte strings collide,
			// impossible for CRC-16/ARC (TabStep is invertible in the state).
			c.report("crc16-prefix-collision", fmt.Sprintf("Checksum of 2-byte strings %04x and %04x collide (%04x): not CRC-16/ARC", seen[s], p, s),
				map[string]interface{}{"a": seen[s], "b": p, "sum": s})
			return
		}
		seen[s] = int32(p)
	}
	var n, bad int64
	h := dyncrc16.New()
	for s := 0; s < 65536; s++ {
		p := seen[s]
		for b := 0; b < 256; b++ {
			h.Reset()
			h.Write([]byte{byte(p), byte(p >> 8)})
			if int(h.Sum16()) != s {
				c.report("crc16-write-vs-checksum", "Write of a 2-byte prefix and Checksum disagree", map[string]interface{}{"prefix": p})
				return
			}
			h.Write([]byte{byte(b)})
			want := (s >> 8) ^ T[(s&0xFF)^b]
			got := int(h.Sum16())
			n++
			if got != want {
				bad++
				if bad <= 3 {
					c.report(fmt.Sprintf("crc16-step"), fmt.Sprintf("state %#04x byte %#02x: real code gives %#04x, CRC-16/ARC gives %#04x", s, b, got, want),
						map[string]interface{}{"state": s, "byte": b, "got": got, "want": want, "prefix": []int{int(p) & 0xFF, int(p) >> 8}})
				}
			}
		}
	}
	c.Cov["real_transitions_checked"] = n
	c.Cov["real_transition_mismatches"] = bad
	c.sample(map[string]interface{}{"kind": "transition", "state": 0xBEEF, "byte": 0x42, "expected": (0xBEEF >> 8) ^ T[(0xBEEF&0xFF)^0x42]})
}

// c14Concurrent: Checksum is a function of its argument, also when several
// goroutines call it at once on their own data (the library itself calls it
// from Encode and Header.MarshalBinary).
func c14Concurrent(c *Ctx) {
	var wg sync.WaitGroup
	var bad int64
	var first atomic.Value
	n := c.pick(60000, 600000)
	for g := 0; g < 8; g++ {
		wg.Add(1)
		go func(g int) {
			defer wg.Done()
			rng := rand.New(rand.NewSource(c.Seed*31 + int64(g)))
			d := make([]byte, 3+g)
			for i := 0; i < n; i++ {
				rng.Read(d)
				if got, want := dyncrc16.Checksum(d), crc16(d); got != want {
					if atomic.AddInt64(&bad, 1) == 1 {
						first.Store(fmt.Sprintf("Checksum(%v) = %#04x, CRC-16/ARC is %#04x", d, got, want))
					}
				}
			}
		}(g)
	}
	wg.Wait()
	c.Cov["concurrent_checksum_calls"] = 8 * n
	if bad > 0 {
		c.report("crc16-checksum-concurrent", fmt.Sprintf("Checksum is not a function of its argument when goroutines call it at the same time: %d wrong sums, first: %v", bad, first.Load()), nil)
	}
}

func c14StreamMC(c *Ctx) {
	maxFed, maxChunk := 4, 2
	if c.thorough() {
		maxFed, maxChunk = 6, 3
	}
	cfg := fmt.Sprintf("CONSTANTS\n Alphabet <- Q_Alpha\n MaxFed = %d\n MaxChunk = %d\nSPECIFICATION Spec\nINVARIANTS PartitionInvariant ResidueInvariant\nPROPERTY ResetProp\nCHECK_DEADLOCK FALSE\n", maxFed, maxChunk)
	r := c.runTLC(TLCRun{Module: "MC_CrcStream", Cfg: cfg, Workers: 8, HeapGB: 4})
	if r.Exit != 0 {
		c.die("TLC MC_CrcStream exit %d\n%s", r.Exit, c.tlcTail(r))
	}
	c.account(r)
	c.Cov["stream_mc_states"] = r.Distinct
}

type crcOp struct {
	Op     string      `json:"op"`
	Data   []int       `json:"data"`
	N      int         `json:"n"`
	V      interface{} `json:"v,omitempty"`
	Prefix []int       `json:"prefix"`
}

type crcTrace struct {
	ID  int     `json:"id"`
	Ops []crcOp `json:"ops"`
}

func c14StreamTraces(c *Ctx) {
	rng := rand.New(rand.NewSource(c.Seed))
	ntr := c.pick(300, 4000)
	var traces []crcTrace
	var sb strings.Builder
	nops := 0
	for i := 0; i < ntr; i++ {
		tr := crcTrace{ID: i + 1}
		if i%5 == 2 {
			// the library uses the same package for its own checks, also failing
			// ones: a hash obtained afterwards still starts from zero
			junk := make([]byte, 40)
			rng.Read(junk)
			copy(junk, []byte{14, 0x10, 0x43, 0x08, 20, 0, 0, 0, '.', 'F', 'I', 'T'})
			if i%2 == 0 {
				fit.CheckIntegrity(bytes.NewReader(junk), false)
				fit.DecodeHeader(bytes.NewReader(junk))
			}
			bad := fit.NewHeader(fit.V20, true)
			bad.CRC = uint16(1 + rng.Intn(65535))
			bad.DataSize = uint32(rng.Intn(100000))
			bad.CheckIntegrity() // the last use before the hash below is obtained
			if i%4 == 1 {
				fit.CheckIntegrity(bytes.NewReader(junk), true)
			}
		}
		h := dyncrc16.New()
		if i%5 == 2 {
			tr.Ops = append(tr.Ops, crcOp{Op: "sum16", V: int(h.Sum16())})
		}
		n := 2 + rng.Intn(12)
		if i < 3 {
			// one write longer than any 16-bit length, on a non-zero state
			h.Write([]byte{1, 2, 3})
			tr.Ops = append(tr.Ops, crcOp{Op: "write", Data: []int{1, 2, 3}, N: 3})
			d := make([]byte, []int{65535, 65536, 70001}[i])
			rng.Read(d)
			wn, _ := h.Write(d)
			tr.Ops = append(tr.Ops, crcOp{Op: "write", Data: toInts(d), N: wn}, crcOp{Op: "sum16", V: int(h.Sum16())})
		}
		if i == 3 {
			d := make([]byte, 66770)
			rng.Read(d)
			tr.Ops = append(tr.Ops, crcOp{Op: "checksum", Data: toInts(d), V: int(dyncrc16.Checksum(d))})
		}
		if i%4 == 1 {
			// the hash is an io.Writer: feed it with io.Copy / io.CopyN from readers of
			// different habits (byte at a time, data together with EOF, halves)
			d := make([]byte, 1+rng.Intn(300))
			rng.Read(d)
			var src io.Reader = bytes.NewReader(d)
			switch (i / 4) % 5 {
			case 1:
				src = iotest.OneByteReader(src)
			case 2:
				src = iotest.DataErrReader(src)
			case 3:
				src = iotest.HalfReader(src)
			case 4:
				src = io.LimitReader(iotest.DataErrReader(src), int64(len(d)))
			}
			var cn int64
			if (i/4)%2 == 0 {
				cn, _ = io.Copy(h, src)
			} else {
				cn, _ = io.CopyN(h, src, int64(len(d)))
			}
			tr.Ops = append(tr.Ops, crcOp{Op: "copy", Data: toInts(d), N: int(cn)}, crcOp{Op: "sum16", V: int(h.Sum16())})
		}
		if i%4 == 2 {
			// the hash fed with strings (io.WriteString, io.Copy from a strings.Reader): bytes above 0x7F are bytes
			d := make([]byte, 1+rng.Intn(60))
			rng.Read(d)
			d[0] |= 0x80
			var cn int64
			if (i/4)%2 == 0 {
				k, _ := io.WriteString(h, string(d))
				cn = int64(k)
			} else {
				cn, _ = io.Copy(h, strings.NewReader(string(d)))
			}
			tr.Ops = append(tr.Ops, crcOp{Op: "copy", Data: toInts(d), N: int(cn)}, crcOp{Op: "sum16", V: int(h.Sum16())})
		}
		for j := 0; j < n; j++ {
			if j == n/2 && i%3 == 0 {
				// the running sum itself written as the next two bytes, in either byte order
				// (little-endian is the trailer of a FIT file and must give zero; big-endian must not be special)
				sum := h.Sum16()
				two := []byte{byte(sum >> 8), byte(sum)}
				if i%2 == 0 {
					two = []byte{byte(sum), byte(sum >> 8)}
				}
				wn, _ := h.Write(two)
				tr.Ops = append(tr.Ops, crcOp{Op: "write", Data: toInts(two), N: wn}, crcOp{Op: "sum16", V: int(h.Sum16())})
			}
			switch x := rng.Intn(10); {
			case x < 5:
				l := rng.Intn(9)
				if rng.Intn(8) == 0 {
					l = 40 + rng.Intn(200)
				}

				d := make([]byte, l)
				switch rng.Intn(3) {
				case 0:
					rng.Read(d)
				case 1:
					for k := range d {
						d[k] = []byte{0, 0xFF, 0x80, 1}[rng.Intn(4)]
					}
				}
				wn, _ := h.Write(d)
				tr.Ops = append(tr.Ops, crcOp{Op: "write", Data: toInts(d), N: wn})
			case x < 7:
				tr.Ops = append(tr.Ops, crcOp{Op: "sum16", V: int(h.Sum16())})
			case x == 7:
				pre := make([]byte, rng.Intn(3))
				rng.Read(pre)
				tr.Ops = append(tr.Ops, crcOp{Op: "sum", Prefix: toInts(pre), V: toInts(h.Sum(append([]byte{}, pre...)))})
			case x == 8:
				h.Reset()
				tr.Ops = append(tr.Ops, crcOp{Op: "reset"})
			default:
				d := make([]byte, rng.Intn(20))
				rng.Read(d)
				sum := dyncrc16.Checksum(d)
				tr.Ops = append(tr.Ops, crcOp{Op: "checksum", Data: toInts(d), V: int(sum)})
				whole := append(append([]byte{}, d...), byte(sum), byte(sum>>8))
				tr.Ops = append(tr.Ops, crcOp{Op: "residue", Data: toInts(d), V: int(dyncrc16.Checksum(whole))})
			}
		}
		tr.Ops = append(tr.Ops, crcOp{Op: "sum16", V: int(h.Sum16())})
		// JSON: empty arrays must be present for TLA+ (Len(o.data)); omitempty drops them, so patch.
		for k := range tr.Ops {
			if tr.Ops[k].Data == nil {
				tr.Ops[k].Data = []int{}
			}
			if tr.Ops[k].Prefix == nil {
				tr.Ops[k].Prefix = []int{}
			}
		}
		nops += len(tr.Ops)
		traces = append(traces, tr)
	}
	for _, tr := range traces {
		b, _ := json.Marshal(tr)
		sb.Write(b)
		sb.WriteByte('\n')
	}
	c.sample(traces[0])
	mm := c.validateTraces("Trace_CrcStream", "TSpec", "Post", []byte(sb.String()), nil, 1)
	for _, m := range mm {
		id := int(m["trace"].(float64))
		c.report(fmt.Sprintf("crcstream-%v", m["what"]), fmt.Sprintf("streaming checksum disagrees with CrcStream: %v", m), traces[id-1])
	}
	c.Traces += int64(ntr)
	c.Cov["stream_trace_ops"] = int64(nops)
}
