package main

import (
	"bufio"
	"bytes"
	"encoding/json"
	"fmt"
	"math/rand"
	"os"
	"os/exec"
	"path/filepath"
	"regexp"
	"sort"
	"strconv"
	"strings"
	"sync"
	"time"
)

const (
	verifDir = "/verif"
	tlaJars  = "/opt/veriftools/tla/tla2tools.jar:/opt/veriftools/tla/CommunityModules-deps.jar"
)

// repoDir is the tree under test: /repo for every registered command. The
// seeded-change sweep (seeded/psweep.sh) points it at a scratch worktree that
// carries one seeded change, and outDir at a scratch directory, so that many
// changes can be tried at once without touching /repo or /verif/evidence.
var (
	specDir = envOr("VERIF_SPEC", "/verif/spec")
	repoDir = envOr("VERIF_REPO", "/repo")
	outDir  = envOr("VERIF_OUT", verifDir)
)

func envOr(k, d string) string {
	if v := os.Getenv(k); v != "" {
		return v
	}
	return d
}

// ---------------------------------------------------------------------------
// Run context: one per invocation of a check.

type Ctx struct {
	ID        string
	Tier      string
	Seed      int64
	Start     time.Time
	Level     string
	Cov       map[string]interface{}
	Assume    []string
	Samples   []interface{}
	Violation []Violation
	Known     []string
	scratch   []string
	States    int64
	Trans     int64
	Traces    int64
	mu        sync.Mutex
}

type Violation struct {
	What   string      `json:"what"`
	Sig    string      `json:"sig"`
	Replay interface{} `json:"replay"`
}

func newCtx(id, tier, level string) *Ctx {
	seed := int64(1)
	if s := os.Getenv("VERIF_SEED"); s != "" {
		if v, err := strconv.ParseInt(s, 10, 64); err == nil {
			seed = v
		}
	}
	return &Ctx{ID: id, Tier: tier, Seed: seed, Start: time.Now(), Level: level, Cov: map[string]interface{}{}}
}

func (c *Ctx) thorough() bool { return c.Tier == "thorough" }

// pick returns q for the quick tier and t for the thorough tier.
func (c *Ctx) pick(q, t int) int {
	if c.thorough() {
		return t
	}
	return q
}

func (c *Ctx) sample(v interface{}) {
	if len(c.Samples) < 6 {
		c.Samples = append(c.Samples, v)
	}
}

func (c *Ctx) add(key string, n int64) {
	if v, ok := c.Cov[key].(int64); ok {
		c.Cov[key] = v + n
	} else {
		c.Cov[key] = n
	}
}

func (c *Ctx) scratchDir() string {
	d, err := os.MkdirTemp("", "vcheck-"+c.ID+"-")
	if err != nil {
		c.die("mktemp: %v", err)
	}
	c.mu.Lock()
	c.scratch = append(c.scratch, d)
	c.mu.Unlock()
	return d
}

func (c *Ctx) cleanup() {
	if os.Getenv("VERIF_KEEP") != "" {
		fmt.Println("scratch kept:", c.scratch)
		return
	}
	for _, d := range c.scratch {
		os.RemoveAll(d)
	}
	c.scratch = nil
}

// die: the machinery failed (not the property). Exit 2, never a VIOLATION.
func (c *Ctx) die(format string, a ...interface{}) {
	fmt.Printf("CHECK-ERROR property=%s %s\n", c.ID, fmt.Sprintf(format, a...))
	c.cleanup()
	os.Exit(2)
}

// ---------------------------------------------------------------------------
// Known findings

type KnownFinding struct {
	Property string `json:"property"`
	Sig      string `json:"sig"`
	What     string `json:"what"`
	Status   string `json:"status"` // "known" or "fixed"
	Commit   string `json:"commit,omitempty"`
}

func loadKnown() []KnownFinding {
	var kf struct {
		Findings []KnownFinding `json:"findings"`
	}
	b, err := os.ReadFile(filepath.Join(verifDir, "known_findings.json"))
	if err != nil {
		return nil
	}
	if err := json.Unmarshal(b, &kf); err != nil {
		fmt.Printf("CHECK-ERROR known_findings.json: %v\n", err)
		os.Exit(2)
	}
	return kf.Findings
}

// report records a disagreement between the real code and the Contract.
// sig identifies the failing input / call site; a listed known finding with
// the same property and signature turns it into a KNOWN-FINDING line.
func (c *Ctx) report(sig, what string, replay interface{}) {
	for _, k := range loadKnown() {
		if k.Status == "known" && k.Property == c.ID && k.Sig == sig {
			line := fmt.Sprintf("KNOWN-FINDING: property=%s %s [%s]", c.ID, k.What, sig)
			for _, l := range c.Known {
				if l == line {
					return
				}
			}
			c.Known = append(c.Known, line)
			return
		}
	}
	for _, v := range c.Violation {
		if v.Sig == sig {
			return // one replay per signature
		}
	}
	c.Violation = append(c.Violation, Violation{What: what, Sig: sig, Replay: replay})
}

// finish writes evidence, prints KNOWN-FINDING / VIOLATION lines and exits.
func (c *Ctx) finish() {
	wall := time.Since(c.Start).Seconds()
	cov := c.Cov
	if len(c.Samples) > 0 {
		cov["samples"] = c.Samples
	}
	if c.States > 0 {
		cov["states"] = c.States
		cov["transitions"] = c.Trans
		cov["traces_validated_against_impl"] = c.Traces
	}
	ev := map[string]interface{}{
		"property_id": c.ID,
		"tier":        c.Tier,
		"seed":        c.Seed,
		"level":       c.Level,
		"coverage":    cov,
		"assumptions": c.Assume,
		"wall_s":      wall,
		"violations":  len(c.Violation),
	}
	if len(c.Known) > 0 {
		ev["known_findings_matched"] = c.Known
	}
	os.MkdirAll(filepath.Join(outDir, "evidence"), 0o755)
	b, _ := json.MarshalIndent(ev, "", " ")
	if err := os.WriteFile(filepath.Join(outDir, "evidence", c.ID+".json"), append(b, '\n'), 0o644); err != nil {
		c.die("write evidence: %v", err)
	}
	sort.Strings(c.Known)
	for _, l := range c.Known {
		fmt.Println(l)
	}
	c.cleanup()
	if len(c.Violation) == 0 {
		fmt.Printf("OK property=%s tier=%s seed=%d wall=%.1fs\n", c.ID, c.Tier, c.Seed, wall)
		os.Exit(0)
	}
	dir := filepath.Join(outDir, "replays", c.ID)
	os.MkdirAll(dir, 0o755)
	for i, v := range c.Violation {
		p := filepath.Join(dir, fmt.Sprintf("%s-%d-%d.json", c.Tier, c.Seed, i))
		b, _ := json.MarshalIndent(v, "", " ")
		os.WriteFile(p, b, 0o644)
		fmt.Printf("VIOLATION property=%s replay=%s\n", c.ID, p)
		fmt.Printf("  what: %s\n", v.What)
	}
	os.Exit(1)
}

// ---------------------------------------------------------------------------
// TLC runner

type TLCRun struct {
	Module  string            // module file name without .tla
	Cfg     string            // cfg text (written as <Module>.cfg)
	Files   map[string][]byte // extra files placed next to the spec
	Workers int
	HeapGB  int
	Timeout time.Duration
	Extra   []string // extra TLC args
	Props   map[string]string
}

type TLCResult struct {
	Exit      int
	Out       string
	Generated int64
	Distinct  int64
	Dir       string
	Wall      time.Duration
}

var reStates = regexp.MustCompile(`(\d+) states generated, (\d+) distinct states found`)

func (c *Ctx) runTLC(r TLCRun) *TLCResult {
	dir := c.scratchDir()
	ents, err := os.ReadDir(specDir)
	if err != nil {
		c.die("spec dir: %v", err)
	}
	for _, e := range ents {
		if strings.HasSuffix(e.Name(), ".tla") {
			b, _ := os.ReadFile(filepath.Join(specDir, e.Name()))
			os.WriteFile(filepath.Join(dir, e.Name()), b, 0o644)
		}
	}
	for n, b := range r.Files {
		if err := os.WriteFile(filepath.Join(dir, n), b, 0o644); err != nil {
			c.die("write %s: %v", n, err)
		}
	}
	os.WriteFile(filepath.Join(dir, r.Module+".cfg"), []byte(r.Cfg), 0o644)
	if r.Workers == 0 {
		r.Workers = 1
	}
	if r.HeapGB == 0 {
		r.HeapGB = 4
	}
	if r.Timeout == 0 {
		r.Timeout = 10 * time.Minute
	}
	// java.io.tmpdir: TLC leaves an empty tlc-<n> directory per run behind; keep it inside the scratch directory
	args := []string{fmt.Sprintf("-Xmx%dg", r.HeapGB), "-Xss64m", "-XX:+UseParallelGC", "-XX:ParallelGCThreads=4", "-Djava.io.tmpdir=" + dir}
	for k, v := range r.Props {
		args = append(args, "-D"+k+"="+v)
	}
	args = append(args, "-cp", tlaJars, "tlc2.TLC", "-workers", strconv.Itoa(r.Workers),
		"-metadir", filepath.Join(dir, "meta"), "-noGenerateSpecTE", "-config", r.Module+".cfg")
	args = append(args, r.Extra...)
	args = append(args, r.Module+".tla")
	cmd := exec.Command("timeout", append([]string{strconv.Itoa(int(r.Timeout.Seconds())), "java"}, args...)...)
	cmd.Dir = dir
	cmd.Env = append(os.Environ(), "JAVA_TOOL_OPTIONS=")
	var out bytes.Buffer
	cmd.Stdout = &out
	cmd.Stderr = &out
	t0 := time.Now()
	err = cmd.Run()
	res := &TLCResult{Out: out.String(), Dir: dir, Wall: time.Since(t0)}
	if err != nil {
		if ee, ok := err.(*exec.ExitError); ok {
			res.Exit = ee.ExitCode()
		} else {
			c.die("cannot start TLC: %v", err)
		}
	}
	if m := reStates.FindAllStringSubmatch(res.Out, -1); len(m) > 0 {
		last := m[len(m)-1]
		res.Generated, _ = strconv.ParseInt(last[1], 10, 64)
		res.Distinct, _ = strconv.ParseInt(last[2], 10, 64)
	}
	return res
}

// tlcMust: TLC must finish with exit 0 or 10 (postcondition/assumption
// false is handled by the caller); anything else is a tool failure.
func (c *Ctx) tlcTail(res *TLCResult) string {
	lines := strings.Split(res.Out, "\n")
	// the first error block is what matters; then the tail
	var head []string
	for i, l := range lines {
		if strings.HasPrefix(l, "Error:") || strings.Contains(l, "exception") {
			end := i + 12
			if end > len(lines) {
				end = len(lines)
			}
			head = append([]string{"--- first error ---"}, lines[i:end]...)
			head = append(head, "--- tail ---")
			break
		}
	}
	if len(lines) > 25 {
		lines = lines[len(lines)-25:]
	}
	return strings.Join(append(head, lines...), "\n")
}

func (c *Ctx) account(res *TLCResult) {
	c.States += res.Distinct
	c.Trans += res.Generated
}

func readNDJSON(path string) ([]map[string]interface{}, error) {
	f, err := os.Open(path)
	if err != nil {
		return nil, err
	}
	defer f.Close()
	var out []map[string]interface{}
	sc := bufio.NewScanner(f)
	sc.Buffer(make([]byte, 1<<20), 1<<28)
	for sc.Scan() {
		line := bytes.TrimSpace(sc.Bytes())
		if len(line) == 0 {
			continue
		}
		var m map[string]interface{}
		if err := json.Unmarshal(line, &m); err != nil {
			return nil, err
		}
		out = append(out, m)
	}
	return out, sc.Err()
}

func newRng(seed int64) *rand.Rand { return rand.New(rand.NewSource(seed)) }

func toInts(b []byte) []int {
	out := make([]int, len(b))
	for i, x := range b {
		out[i] = int(x)
	}
	return out
}

func mustRead(path string) []byte {
	b, err := os.ReadFile(path)
	if err != nil {
		panic(err)
	}
	return b
}
