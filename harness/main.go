package main

import (
	"fmt"
	"os"
)

var checks = map[string]func(*Ctx){
	"C14":    runC14,
	"C02":    runC02,
	"C12":    runC12,
	"C13":    runC13,
	"C10":    runC10,
	"C19":    runC19,
	"C20":    runC20,
	"C15":    runC15,
	"C17":    runC17,
	"C09":    runC09,
	"C08":    runC08,
	"C06":    runC06,
	"C07":    runC07,
	"C05":    runC05,
	"C01":    runC01,
	"C04":    runC04,
	"C11":    runC11,
	"C16":    runC16,
	"C03":    runC03,
	"C18":    runC18,
	"corpus": runCorpus,
	"gen":    runGen,
}

func main() {
	if len(os.Args) < 3 {
		fmt.Println("usage: vcheck <property> <quick|thorough>")
		os.Exit(2)
	}
	if os.Args[1] == "stress" {
		runStress(os.Args[2:])
		return
	}
	if os.Args[1] == "child" {
		runChild(os.Args[2:])
		return
	}
	id, tier := os.Args[1], os.Args[2]
	if tier == "replay" && len(os.Args) > 3 {
		runReplay(id, os.Args[3])
		return
	}
	if tier != "quick" && tier != "thorough" {
		fmt.Println("tier must be quick or thorough")
		os.Exit(2)
	}
	f, ok := checks[id]
	if !ok {
		fmt.Printf("unknown property %s\n", id)
		os.Exit(2)
	}
	c := newCtx(id, tier, "model_checking")
	defer func() {
		if r := recover(); r != nil {
			c.die("harness panic: %v", r)
		}
	}()
	f(c)
}
