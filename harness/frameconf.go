package main

import (
	"bytes"
	"encoding/json"
	"fmt"
)

// unitsOf lists the sizes of the parser's successive requests (readByte /
// skipByte / readFull) over the record area of a valid file, as reader.go
// makes them.
func unitsOf(b []byte) (h int, units []int) {
	h = int(b[0])
	pos := h
	end := h + int(uint32(b[4])|uint32(b[5])<<8|uint32(b[6])<<16|uint32(b[7])<<24)
	type def struct{ sizes []int }
	defs := map[int]*def{}
	for pos < end {
		hd := b[pos]
		units = append(units, 1)
		if hd&0x80 != 0 || hd&0x40 == 0 {
			l := int(hd & 0x0F)
			if hd&0x80 != 0 {
				l = int(hd>>5) & 3
			}
			d := defs[l]
			if d == nil {
				return
			}
			n := 0
			for _, s := range d.sizes {
				if s > 0 {
					units = append(units, s)
				}
				n += s
			}
			pos += 1 + n
			continue
		}
		nf := int(b[pos+5])
		units = append(units, 1, 1, 2, 1)
		if nf > 0 {
			units = append(units, 3*nf)
		}
		d := &def{}
		q := pos + 6
		for i := 0; i < nf; i++ {
			d.sizes = append(d.sizes, int(b[q+1]))
			q += 3
		}
		if hd&0x20 != 0 {
			nd := int(b[q])
			units = append(units, 1)
			if nd > 0 {
				units = append(units, 3*nd)
			}
			q++
			for i := 0; i < nd; i++ {
				d.sizes = append(d.sizes, int(b[q+1]))
				q += 3
			}
		}
		defs[int(hd&0x0F)] = d
		pos = q
	}
	return
}

// frameConformance replays recorded Read sequences of Decode / DecodeChained
// calls through FrameImpl (Code ~ Impl). Disagreements are model drift:
// reported in the evidence and on stdout, never as violations.
func (c *Ctx) frameConformance(calls []*Call, members map[int][][]byte) {
	var tb bytes.Buffer
	n, ndec, nint := 0, 0, 0
	for _, cl := range calls {
		ms := members[cl.ID]
		if len(cl.Input) > 1500 {
			continue // a sample is enough for drift detection; large inputs make the state vector heavy
		}
		if ms == nil || (cl.API != "decode" && cl.API != "chained" && cl.API != "integrity") || len(cl.Reads) == 0 || cl.Ret.Hang == 1 || cl.Ret.Panic == 1 {
			continue
		}
		if cl.API == "integrity" {
			if nint >= 30 {
				continue
			}
			nint++
		} else {
			if ndec >= 60 {
				continue
			}
			ndec++
		}
		if cl.API != "chained" {
			ms = ms[:1]
		}
		var files []map[string]interface{}
		for _, m := range ms {
			h, u := unitsOf(m)
			if u == nil {
				u = []int{}
			}
			mode := "decode"
			if cl.API == "integrity" {
				// CheckIntegrity copies the data area as one unit of DataSize bytes
				mode = "integrity"
				u = []int{}
				if ds := int(uint32(m[4]) | uint32(m[5])<<8 | uint32(m[6])<<16 | uint32(m[7])<<24); ds > 0 {
					u = []int{ds}
				}
			}
			files = append(files, map[string]interface{}{"h": h, "units": u, "mode": mode})
		}
		b, _ := json.Marshal(map[string]interface{}{"id": cl.ID, "files": files, "avail": cl.Avail, "fault": cl.Fault, "reads": cl.Reads, "err": cl.Ret.Err})
		tb.Write(b)
		tb.WriteByte('\n')
		n++
	}
	if n == 0 {
		return
	}
	mm := c.validateTraces("Trace_FrameImpl", "TSpec", "Post", tb.Bytes(), nil, 6)
	c.Cov["frameimpl_conformance_traces"] = n
	c.Cov["frameimpl_conformance_drift"] = len(mm)
	if len(mm) > 0 {
		var ex []interface{}
		for i, m := range mm {
			if i < 3 {
				ex = append(ex, m)
			}
		}
		c.Cov["frameimpl_conformance_drift_samples"] = ex
		fmt.Printf("DRIFT property=%s %d recorded Read sequences are not behaviours of FrameImpl (model drift, not a violation): %v\n", c.ID, len(mm), ex)
	}
}
