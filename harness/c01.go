package main

import (
	"bytes"
	"encoding/json"
	"fmt"
	"math/rand"
	"strings"
	"sync"
	"sync/atomic"
	"time"

	"github.com/tormoder/fit"
)

var crcTab [256]uint16

func init() {
	for i := 0; i < 256; i++ {
		crcTab[i] = crc16([]byte{byte(i)})
	}
}

func crc16fast(r uint16, data []byte) uint16 {
	for _, b := range data {
		r = (r >> 8) ^ crcTab[byte(r)^b]
	}
	return r
}

type vclass struct {
	Found bool `json:"found"`
	B     int  `json:"b"`
	A     int  `json:"a"`
	K     int  `json:"k"`
}

type vtable struct {
	Classes     int `json:"classes"`
	Evaluations int `json:"evaluations"`
	Unsound     []vclass
	Table       []struct {
		Cls  vclass            `json:"cls"`
		Rows [][][]interface{} `json:"rows"`
	} `json:"table"`
}

func (t *vtable) expected(cls vclass, b, sz int) string {
	for _, e := range t.Table {
		if e.Cls == cls {
			for _, run := range e.Rows[b] {
				if sz >= int(run[0].(float64)) && sz <= int(run[1].(float64)) {
					return run[2].(string)
				}
			}
		}
	}
	return "?"
}

type target struct {
	m, n int
	cls  vclass
	note string
}

// C01: decoding entry points are total.
func runC01(c *Ctx) {
	p := exportProfile()
	sch := exportSchema()
	c.Assume = []string{
		"Validator.tla: Validate transcribes validateFieldDef, StoreSafe models what reflect.Value.SetUint/SetInt/SetFloat/SetString/SetBytes and the scratch-buffer slices accept; TLC evaluates Validate = ok => StoreSafe for every profile class present x 256 base bytes x 256 sizes",
		"premise exported from the compiled tables and asserted: no float-typed profile field exists (a signed integer definition on a float field would pass the validator and panic in SetInt)",
		"a violation is a panic or a call that does not return within the watchdog; error/no-error differences from the model's table are model drift, reported in the evidence, not violations",
		"reader assumption: Read returns n > 0 or an error",
	}
	// 1. validator theorem + verdict table
	r := c.runTLC(TLCRun{Module: "MC_Validator", Cfg: "INIT Init\nNEXT Next\n", Workers: 1, HeapGB: 6, Timeout: 20 * time.Minute,
		Files: map[string][]byte{"profile.json": p.json(), "schema.json": sch.json()}})
	if r.Exit != 0 {
		if strings.Contains(r.Out, "Assumption") && strings.Contains(r.Out, "is false") {
			c.report("validator-unsound", "TLC: the definition validator admits a (profile class, base type, size) that the reflection setters cannot store:\n"+c.tlcTail(r), nil)
			c.finish()
		}
		c.die("TLC MC_Validator exit %d\n%s", r.Exit, c.tlcTail(r))
	}
	c.account(r)
	var vt vtable
	b, err := readFile(r.Dir, "validator_out.json")
	if err != nil {
		c.die("validator_out.json: %v", err)
	}
	var raw map[string]json.RawMessage
	json.Unmarshal(b, &raw)
	if err := json.Unmarshal(b, &vt); err != nil {
		c.die("validator_out.json: %v", err)
	}
	json.Unmarshal(raw["unsound_hypothetical"], &vt.Unsound)
	c.Cov["validator_classes"] = vt.Classes
	c.Cov["validator_evaluations_by_tlc"] = vt.Evaluations
	c.Cov["classes_for_which_the_validator_would_be_unsound_but_absent_from_the_profile"] = vt.Unsound

	// 2. exhaustive single-field definitions against the real decoder
	rng := newRng(c.Seed)
	var targets []target
	seen := map[vclass]bool{}
	var all []target
	for _, pm := range p.Msgs {
		for _, f := range pm.Fields {
			t := target{pm.M, f.N, vclass{true, f.B, f.A, f.K}, fmt.Sprintf("%s field %d", pm.Name, f.N)}
			all = append(all, t)
			if !seen[t.cls] {
				seen[t.cls] = true
				targets = append(targets, t)
			}
		}
	}
	unk := vclass{}
	targets = append(targets, target{20, 200, unk, "record, unknown field 200"}, target{0xFF00, 3, unk, "unknown message 0xFF00"}, target{300, 0, unk, "unknown message 300 (inside the table range)"})
	if c.thorough() {
		targets = all
		for _, pm := range p.Msgs {
			targets = append(targets, target{pm.M, 251, unk, pm.Name + " unknown field 251"})
		}
		targets = append(targets, target{0xFF00, 3, unk, "unknown message 0xFF00"}, target{300, 0, unk, "unknown message 300"}, target{65534, 255, unk, "unknown message 65534"})
	} else {
		for i := 0; i < 40; i++ {
			targets = append(targets, all[rng.Intn(len(all))])
		}
	}
	var decodes, drift, panics int64
	var driftSample []string
	var mu sync.Mutex
	jobs := make(chan target, len(targets))
	var wg sync.WaitGroup
	progress := make([]int64, 16)
	current := make([][]byte, 16)
	for w := 0; w < 16; w++ {
		wg.Add(1)
		go func(w int) {
			defer wg.Done()
			for t := range jobs {
				for arch := 0; arch < 2; arch++ {
					pre := newStream(12, false)
					pre.FileId(0, byte(arch), 4)
					prefix := pre.body
					for b := 0; b < 256; b++ {
						for sz := 0; sz < 256; sz++ {
							body := append([]byte{}, prefix...)
							body = append(body, 0x41, 0, byte(arch))
							if arch == 0 {
								body = append(body, byte(t.m), byte(t.m>>8))
							} else {
								body = append(body, byte(t.m>>8), byte(t.m))
							}
							body = append(body, 1, byte(t.n), byte(sz), byte(b), 0x01)
							for k := 0; k < sz; k++ {
								body = append(body, byte(0x61+(k*7+b)%26))
							}
							hdr := []byte{12, 0x10, 0x43, 0x08, byte(len(body)), byte(len(body) >> 8), 0, 0, '.', 'F', 'I', 'T'}
							file := append(hdr, body...)
							cr := crc16fast(0, file)
							file = append(file, byte(cr), byte(cr>>8))
							current[w] = file
							var derr error
							pn := func() (pn interface{}) {
								defer func() { pn = recover() }()
								_, derr = fit.Decode(bytes.NewReader(file))
								return nil
							}()
							atomic.AddInt64(&progress[w], 1)
							atomic.AddInt64(&decodes, 1)
							if pn != nil {
								atomic.AddInt64(&panics, 1)
								mu.Lock()
								c.report(fmt.Sprintf("panic:def:%v", t.cls), fmt.Sprintf("Decode panics on a single-field definition: %s, base type %#x, size %d, arch %d: %v", t.note, b, sz, arch, pn),
									map[string]interface{}{"input": toInts(file), "target": t.note, "base": b, "size": sz, "arch": arch})
								mu.Unlock()
								continue
							}
							exp := vt.expected(t.cls, b, sz)
							got := "ok"
							if derr != nil {
								got = "error"
							}
							if (exp == "ok") != (got == "ok") {
								atomic.AddInt64(&drift, 1)
								mu.Lock()
								if len(driftSample) < 5 {
									driftSample = append(driftSample, fmt.Sprintf("%s base %#x size %d arch %d: model %s, code %s (%v)", t.note, b, sz, arch, exp, got, derr))
								}
								mu.Unlock()
							}
						}
					}
				}
			}
		}(w)
	}
	for _, t := range targets {
		jobs <- t
	}
	close(jobs)
	done := make(chan struct{})
	go func() { wg.Wait(); close(done) }()
	last := make([]int64, 16)
	stuck := 0
wait:
	for {
		select {
		case <-done:
			break wait
		case <-time.After(20 * time.Second):
			moved := false
			for w := range progress {
				v := atomic.LoadInt64(&progress[w])
				if v != last[w] {
					moved = true
				}
				last[w] = v
			}
			if !moved {
				stuck++
				if stuck >= 2 {
					c.report("hang:def", "Decode does not return on a single-field definition stream", map[string]interface{}{"input": toInts(current[0])})
					break wait
				}
			} else {
				stuck = 0
			}
		}
	}
	c.Cov["definition_targets"] = len(targets)
	c.Cov["definition_decodes"] = decodes
	c.Cov["definition_panics"] = panics
	c.Cov["model_drift_verdicts"] = drift
	if drift > 0 {
		c.Cov["model_drift_samples"] = driftSample
		fmt.Printf("DRIFT property=C01 %d error/no-error verdicts differ from Validator.tla (not a violation): %v\n", drift, driftSample)
	}
	c.Cov["exhaustive"] = c.thorough()

	// 2b. every container x every (message, field) in small element counts
	containerFieldSweep(c, p)

	// 3. byte-string totality through every entry point and chunking
	pool := validPool(p, sch, rng, 4000, c.pick(20, 100))
	var calls []*Call
	id := 0
	apis := []string{"decode", "chained", "integrity", "integrity_hdr", "header", "header_fileid"}
	nin := c.pick(700, 12000)
	for i := 0; i < nin; i++ {
		in := mutate(rng, pool)
		rs := readScript{chunks: chunkScripts[rng.Intn(len(chunkScripts))], cut: -1, fault: -1, withEOF: rng.Intn(3) == 0}
		if rng.Intn(4) == 0 && len(in) > 0 {
			if rng.Intn(2) == 0 {
				rs.cut = rng.Intn(len(in) + 1)
			} else {
				rs.fault = rng.Intn(len(in) + 1)
				rs.withErr = rng.Intn(2) == 0
			}
		}
		for _, api := range apis {
			if api != "decode" && rng.Intn(3) != 0 {
				continue
			}
			id++
			cl := p.runCall(id, api, in, rs, CallOpts{UF: rng.Intn(2), UM: rng.Intn(2), Log: rng.Intn(2)}, true)
			cl.Note = "mutated"
			if cl.Ret.Panic == 1 {
				c.report("panic:"+firstWords(cl.Ret.PanicMsg), fmt.Sprintf("%s panics: %s", api, cl.Ret.PanicMsg), cl)
			}
			if cl.Ret.Hang == 1 {
				c.report("hang:"+api, api+" does not return", cl)
			}
			calls = append(calls, cl)
		}
	}
	// valid files cut at every offset around the header and the end, and at the
	// header plus whole buffers: every entry point returns, whatever the cut
	{
		big := newStream(14, true)
		big.FileId(0, 0, 4)
		big.Def(1, 0, 20, []FieldDef{{253, 4, 0x86}, {3, 1, 2}, {4, 1, 2}}, nil)
		for r := 0; r < 1300; r++ {
			big.Data(1, append(u32le(0x38200000+uint32(r)), byte(60+r%100), byte(r%200)))
		}
		files := [][]byte{big.Bytes()}
		for _, b := range pool {
			if len(files) < 5 && len(b) < 4000 {
				files = append(files, b)
			}
		}
		for fi, b := range files {
			hs := int(b[0])
			cuts := map[int]bool{}
			for o := 0; o <= 18 && o <= len(b); o++ {
				cuts[o] = true
			}
			for o := len(b) - 4; o <= len(b); o++ {
				if o >= 0 {
					cuts[o] = true
				}
			}
			for k := 4096; hs+k < len(b); k += 4096 {
				cuts[hs+k-1], cuts[hs+k], cuts[hs+k+1] = true, true, true
			}
			for o := range cuts {
				for ai, api := range apis {
					if fi > 0 && (o+ai)%2 == 1 {
						continue
					}
					id++
					cl := p.runCall(id, api, b, readScript{cut: o, fault: -1, chunks: chunkScripts[(o+ai)%len(chunkScripts)]}, CallOpts{UF: o & 1, UM: ai & 1}, true)
					cl.Note = fmt.Sprintf("valid file cut at %d", o)
					if cl.Ret.Panic == 1 {
						c.report("panic:"+firstWords(cl.Ret.PanicMsg), fmt.Sprintf("%s panics on a valid file cut at %d: %s", api, o, cl.Ret.PanicMsg), cl)
					}
					if cl.Ret.Hang == 1 {
						c.report("hang:"+api, fmt.Sprintf("%s does not return on a valid file cut at %d", api, o), cl)
					}
				}
			}
		}
	}
	// well-formed streams rich in the rarer constructs (unknown messages and
	// fields, developer fields, compressed headers on any message, empty
	// definitions), under all 8 option sets: the option-dependent paths
	// (logger, counters) see every record shape
	{
		g := &generator{rng: rng, p: p, sch: sch, k: defaultKnobs()}
		g.k.pUnknownMsg, g.k.pUnknownFld, g.k.pDev, g.k.pCompressed, g.k.pZeroFields = 0.35, 0.4, 0.3, 0.5, 0.1
		g.k.slots = []int{0, 1, 2, 3, 5, 15}
		g.k.nrec = 40
		for i := 0; i < c.pick(150, 3000); i++ {
			in := g.Generate().Bytes()
			for o := 0; o < 8; o++ {
				api := []string{"decode", "chained"}[(i+o)%2]
				id++
				cl := p.runCall(id, api, in, plain, CallOpts{UF: o & 1, UM: (o >> 1) & 1, Log: (o >> 2) & 1}, true)
				cl.Note = "generated, rich in rare constructs"
				if cl.Ret.Panic == 1 {
					c.report("panic:"+firstWords(cl.Ret.PanicMsg), fmt.Sprintf("%s panics on a well-formed stream (options %+v): %s", api, cl.Opts, cl.Ret.PanicMsg), cl)
				}
				if cl.Ret.Hang == 1 {
					c.report("hang:"+api, api+" does not return", cl)
				}
				if o == 7 {
					calls = append(calls, cl)
				}
			}
		}
	}
	// messages without profile whose fields add up to more than any scratch
	// buffer (up to 255 fields of up to 255 bytes), also with developer fields
	for i := 0; i < c.pick(24, 200); i++ {
		arch := byte(i % 2)
		s := newStream(12, false)
		s.FileId(0, arch, 4)
		nf := []int{4, 6, 3, 40, 255, 12}[i%6]
		var fs []FieldDef
		total := 0
		for f := 0; f < nf; f++ {
			sz := 200 + rng.Intn(56)
			if nf > 12 {
				sz = 1 + rng.Intn(255)
			}
			fs = append(fs, FieldDef{byte(f), byte(sz), 0x0D})
			total += sz
		}
		var dv []DevDef
		if i%4 == 3 {
			dv = []DevDef{{0, 250, 0}, {1, 250, 0}}
			total += 500
		}
		m := uint16(0xFF00 + rng.Intn(200))
		if i%5 == 4 {
			m = 20 // the same shape on a known message: all field numbers unknown to the profile
			for f := range fs {
				fs[f].Num = byte(150 + f%100)
			}
		}
		s.Def(1, arch, m, fs, dv)
		for r := 0; r < 2; r++ {
			pl := make([]byte, total)
			rng.Read(pl)
			s.Data(1, pl)
		}
		s.Def(2, arch, 20, []FieldDef{{3, 1, 2}}, nil)
		s.Data(2, []byte{77})
		for o := 0; o < 4; o++ {
			id++
			cl := p.runCall(id, []string{"decode", "chained"}[o%2], s.Bytes(), readScript{chunks: chunkScripts[(i+o)%len(chunkScripts)], cut: -1, fault: -1}, CallOpts{UF: o & 1, UM: o >> 1}, true)
			cl.Note = fmt.Sprintf("message %d with %d fields, %d bytes of field data", m, nf, total)
			if cl.Ret.Panic == 1 {
				c.report("panic:"+firstWords(cl.Ret.PanicMsg), fmt.Sprintf("%s panics (%s): %s", cl.API, cl.Note, cl.Ret.PanicMsg), cl)
			}
			if cl.Ret.Hang == 1 {
				c.report("hang:"+cl.API, cl.API+" does not return", cl)
			}
			if o == 3 && len(s.Bytes()) < 3000 {
				calls = append(calls, cl)
			}
		}
	}
	// a definition the profile forbids, sent right after the same field triples
	// were accepted for a message without profile on the same local type (and
	// the other way round): each definition is judged on its own
	{
		type cand struct {
			base byte
			size byte
		}
		cands := []cand{{0x85, 4}, {0x86, 4}, {0x84, 2}, {0x83, 2}, {0x02, 1}, {0x01, 1}, {0x8C, 4}, {0x07, 3}, {0x0D, 2}, {0x88, 4}, {0x8E, 8}}
		for i := 0; i < c.pick(400, 6000); i++ {
			pm := p.Msgs[rng.Intn(len(p.Msgs))]
			if len(pm.Fields) == 0 {
				continue
			}
			pf := pm.Fields[rng.Intn(len(pm.Fields))]
			cd := cands[rng.Intn(len(cands))]
			arch := byte(rng.Intn(2))
			l := rng.Intn(16)
			s := newStream(12, false)
			s.FileId((l+1)%16, arch, 4)
			fd := []FieldDef{{byte(pf.N), cd.size, cd.base}}
			pl := make([]byte, cd.size)
			rng.Read(pl)
			first, second := uint16(0xFF00+rng.Intn(8)), uint16(pm.M)
			if i%4 == 3 {
				first, second = second, first
			}
			s.Def(l, arch, first, fd, nil)
			s.Data(l, pl)
			s.Def(l, arch, second, fd, nil)
			s.Data(l, pl)
			id++
			cl := p.runCall(id, "decode", s.Bytes(), plain, CallOpts{UF: i & 1, UM: (i >> 1) & 1}, true)
			cl.Note = fmt.Sprintf("field %d of message %d declared as base %#x size %d, after the same triple for message %d", pf.N, second, cd.base, cd.size, first)
			if cl.Ret.Panic == 1 {
				c.report("panic:"+firstWords(cl.Ret.PanicMsg), fmt.Sprintf("decode panics (%s): %s", cl.Note, cl.Ret.PanicMsg), cl)
			}
			if cl.Ret.Hang == 1 {
				c.report("hang:decode", "decode does not return", cl)
			}
			if i%8 == 0 {
				calls = append(calls, cl)
			}
		}
	}
	// every file-type value followed by ordinary records (a type the library
	// refuses must be refused before any record is routed)
	for t := 0; t < 256; t++ {
		s := newStream(12, false)
		s.FileId(0, byte(t%2), byte(t))
		s.Def(1, 0, 20, []FieldDef{{253, 4, 0x86}, {3, 1, 2}}, nil)
		s.Data(1, []byte{0, 0, 0, 0x38, 77})
		s.Def(2, 0, 49, []FieldDef{{0, 2, 0x84}}, nil)
		s.Data(2, []byte{1, 0})
		for _, api := range []string{"decode", "chained"} {
			id++
			cl := p.runCall(id, api, s.Bytes(), plain, CallOpts{UF: 1, UM: 1}, true)
			cl.Note = fmt.Sprintf("file type %d", t)
			if cl.Ret.Panic == 1 {
				c.report("panic:"+firstWords(cl.Ret.PanicMsg), fmt.Sprintf("%s panics on a file of type %d: %s", api, t, cl.Ret.PanicMsg), cl)
			}
			if cl.Ret.Hang == 1 {
				c.report("hang:"+api, api+" does not return", cl)
			}
			calls = append(calls, cl)
		}
	}
	// a sample is validated in full against the three-valued Contract
	var sample []*Call
	for i, cl := range calls {
		if i%c.pick(4, 8) == 0 && cl.Ret.Hang == 0 && len(cl.Reads) > 0 {
			sample = append(sample, cl)
		}
	}
	mm := c.validateCalls(p, sch, sample, 14)
	c.reportFamily(p, mm, nil)
	c.verdictStats(sample)
	c.Cov["byte_string_calls"] = len(calls)
	c.Cov["byte_string_calls_validated_by_tlc"] = len(sample)
	c.Cov["evaluations"] = decodes + int64(len(calls))
	c.Cov["distinct_nontrivial"] = decodes + int64(countDistinctInputs(sample))
	c.Cov["rule"] = "definitions: (message, field) targets (one per profile class + random in quick; all 779 + unknown ones in thorough) x 256 base-type bytes x 256 sizes x 2 byte orders, each followed by matching data; byte strings: random bytes and valid files under bit flips, byte noise, splices, truncation, header and first-record edits, through all entry points with seeded chunkings, cuts and faults"
	c.sample(map[string]interface{}{"kind": "definition target", "target": targets[0].note, "class": targets[0].cls})
	c.finish()
}

func firstWords(s string) string {
	f := strings.Fields(s)
	if len(f) > 6 {
		f = f[:6]
	}
	return strings.Join(f, " ")
}

// mutate returns an arbitrary byte string: random, or a valid file damaged
// in a structure-aware way.
func mutate(rng *rand.Rand, pool [][]byte) []byte {
	switch rng.Intn(12) {
	case 0:
		b := make([]byte, rng.Intn(300))
		rng.Read(b)
		return b
	case 1:
		// plausible header followed by noise
		n := rng.Intn(200)
		b := []byte{byte(12 + 2*rng.Intn(2)), 0x10, 0, 0, byte(n), 0, 0, 0, '.', 'F', 'I', 'T'}
		if b[0] == 14 {
			b = append(b, 0, 0)
		}
		x := make([]byte, n+2)
		rng.Read(x)
		return append(b, x...)
	}
	src := pool[rng.Intn(len(pool))]
	b := append([]byte{}, src...)
	fixCRC := rng.Intn(2) == 0
	hs := int(b[0])
	switch rng.Intn(9) {
	case 0: // bit flips
		for k := rng.Intn(4); k >= 0; k-- {
			b[rng.Intn(len(b))] ^= 1 << uint(rng.Intn(8))
		}
	case 1: // byte noise in the record area
		for k := rng.Intn(6); k >= 0; k-- {
			b[hs+rng.Intn(len(b)-hs)] = byte(rng.Intn(256))
		}
	case 2: // splice with another file
		o := pool[rng.Intn(len(pool))]
		cut := hs + rng.Intn(len(b)-hs)
		oc := int(o[0]) + rng.Intn(len(o)-int(o[0]))
		b = append(b[:cut], o[oc:]...)
	case 3: // first record: another global message number / not a definition
		if len(b) > hs+6 {
			switch rng.Intn(4) {
			case 0:
				b[hs+3], b[hs+4] = byte(rng.Intn(256)), byte(rng.Intn(256))
			case 1:
				b[hs+3], b[hs+4] = 0, 0xFF
			case 2:
				b[hs] = byte(rng.Intn(256))
			default:
				b[hs+3], b[hs+4] = 20, 0
			}
		}
	case 4: // header fields
		b[rng.Intn(hs)] = byte(rng.Intn(256))
	case 5: // data size
		b[4+rng.Intn(4)] = byte(rng.Intn(256))
	case 6: // a definition's field triple
		for k := 0; k < 3; k++ {
			b[hs+rng.Intn(len(b)-hs)] = []byte{0, 1, 2, 7, 0x83, 0x84, 0x85, 0x86, 0x88, 0x89, 0x0D, 0x8E, 0x8F, 0x90, 0xFF, 0x40, 0x80}[rng.Intn(17)]
		}
	case 7: // duplicate a slice of records
		a := hs + rng.Intn(len(b)-hs)
		z := a + rng.Intn(len(b)-a)
		b = append(b[:z], append(append([]byte{}, b[a:z]...), b[z:]...)...)
	case 8: // header of the other size
		if hs == 12 {
			b = append(append([]byte{14}, b[1:12]...), append([]byte{0, 0}, b[12:]...)...)
		}
	}
	if fixCRC && len(b) > 16 {
		hs = int(b[0])
		if hs == 12 || hs == 14 {
			n := len(b) - hs - 2
			if rng.Intn(2) == 0 && n >= 0 {
				b[4], b[5], b[6], b[7] = byte(n), byte(n>>8), byte(n>>16), 0
			}
			cr := crc16fast(0, b[:len(b)-2])
			b[len(b)-2], b[len(b)-1] = byte(cr), byte(cr>>8)
		}
	}
	return b
}
