package main

import (
	"bytes"
	"encoding/json"
	"fmt"
	"go/ast"
	"go/constant"
	"go/importer"
	"go/parser"
	"go/token"
	"go/types"
	"os"
	"os/exec"
	"path/filepath"
	"regexp"
	"sort"
	"strings"
)

type constEntry struct {
	Name string `json:"name"`
	V    string `json:"v"`
}

// parseTypesGo extracts, with go/types, the named integer types of types.go
// and their constants (name, value) - not from types_string.go.
func parseTypesGo(paths ...string) (map[string][]constEntry, map[string]int, error) {
	fset := token.NewFileSet()
	var files []*ast.File
	for _, path := range paths {
		f, err := parser.ParseFile(fset, path, nil, 0)
		if err != nil {
			return nil, nil, err
		}
		files = append(files, f)
	}
	conf := types.Config{Importer: importer.Default(), Error: func(error) {}}
	info := &types.Info{Defs: map[*ast.Ident]types.Object{}}
	conf.Check("fit", fset, files, info)
	consts := map[string][]constEntry{}
	bits := map[string]int{}
	for id, obj := range info.Defs {
		switch o := obj.(type) {
		case *types.TypeName:
			if b, ok := o.Type().Underlying().(*types.Basic); ok && b.Info()&types.IsInteger != 0 {
				sz := map[types.BasicKind]int{types.Uint8: 8, types.Int8: 8, types.Uint16: 16, types.Int16: 16, types.Uint32: 32, types.Int32: 32, types.Uint64: 64, types.Int64: 64}[b.Kind()]
				bits[o.Name()] = sz
			}
		case *types.Const:
			if named, ok := o.Type().(*types.Named); ok && o.Val().Kind() == constant.Int {
				consts[named.Obj().Name()] = append(consts[named.Obj().Name()], constEntry{Name: id.Name, V: o.Val().ExactString()})
			}
		}
	}
	for k := range consts {
		sort.Slice(consts[k], func(i, j int) bool { return consts[k][i].Name < consts[k][j].Name })
	}
	return consts, bits, nil
}

var reTypesHeader = regexp.MustCompile(`(?m)^// fit types: \[(.*)\]$`)

// C20: every profile constant prints its profile name; string tables match the types.
func runC20(c *Ctx) {
	c.Level = "model_checking"
	c.Assume = []string{
		"Trace_Stringer.tla states the lookup rule; the constant table comes from the checked-in types.go through go/types, not from types_string.go; TLC validates every observed String() call",
		"regeneration is decided by running the repository's own forked stringer (copied into a scratch module, since it is an internal package) on the checked-in types.go with the type list from the header of types_string.go and comparing bytes; that outcome is a fact in the trace",
		"this is a table-lookup property: TLA+ contributes an independent statement of the rule, nothing deeper",
	}
	consts, bits, err := parseTypesGo(filepath.Join(repoDir, "types.go"))
	if err != nil {
		c.die("types.go: %v", err)
	}
	// constants of the generated types declared anywhere else in the package
	// (a hand-added product or manufacturer) are profile constants too
	if ents, err := os.ReadDir(repoDir); err == nil {
		var all []string
		for _, e := range ents {
			n := e.Name()
			if strings.HasSuffix(n, ".go") && !strings.HasSuffix(n, "_test.go") && n != "verif_export.go" && n != "types_string.go" {
				all = append(all, filepath.Join(repoDir, n))
			}
		}
		if ac, _, err := parseTypesGo(all...); err == nil {
			extra := 0
			for t, ces := range ac {
				if _, ok := consts[t]; !ok {
					continue
				}
				have := map[string]bool{}
				for _, ce := range consts[t] {
					have[ce.Name] = true
				}
				for _, ce := range ces {
					if !have[ce.Name] {
						consts[t] = append(consts[t], ce)
						extra++
					}
				}
			}
			c.Cov["constants_declared_outside_types_go"] = extra
		}
	}
	m := reTypesHeader.FindSubmatch(mustRead(filepath.Join(repoDir, "types_string.go")))
	if m == nil {
		c.die("types_string.go has no type list header")
	}
	typeList := strings.Fields(string(m[1]))
	var probeExtra []string
	// hand-written types with the same String() contract (types_man.go: Bool)
	if mc, mb, err := parseTypesGo(filepath.Join(repoDir, "types_man.go")); err == nil {
		var extra []string
		for t, ces := range mc {
			if _, dup := consts[t]; !dup && mb[t] > 0 && len(ces) > 0 {
				consts[t], bits[t] = ces, mb[t]
				extra = append(extra, t)
			}
		}
		sort.Strings(extra)
		probeExtra = extra
		c.Cov["hand_written_types"] = extra
	}
	rng := newRng(c.Seed)
	// probe program
	dir := c.scratchDir()
	var src bytes.Buffer
	src.WriteString(probeHead)
	nvals := 0
	for _, t := range append(append([]string{}, typeList...), probeExtra...) {
		w := bits[t]
		if w == 0 {
			c.report("stringer:type-missing", "types_string.go lists a type that types.go does not declare as an integer type: "+t, nil)
			continue
		}
		set := map[uint64]bool{}
		max := uint64(1)<<uint(w) - 1
		for _, ce := range consts[t] {
			var v uint64
			fmt.Sscan(ce.V, &v)
			set[v] = true
			if v > 0 {
				set[v-1] = true
			}
			if v < max {
				set[v+1] = true
			}
		}
		if w == 8 {
			for v := uint64(0); v < 256; v++ {
				set[v] = true
			}
		} else {
			set[0], set[max], set[max-1], set[1] = true, true, true, true
			for i := 0; i < c.pick(12, 200); i++ {
				set[rng.Uint64()&max] = true
			}
			for v := uint64(0); v < uint64(c.pick(40, 600)); v++ {
				set[v] = true
			}
		}
		vals := make([]uint64, 0, len(set))
		for v := range set {
			vals = append(vals, v)
		}
		sort.Slice(vals, func(i, j int) bool { return vals[i] < vals[j] })
		nvals += len(vals)
		fmt.Fprintf(&src, "\tfor _, v := range []uint64{")
		for i, v := range vals {
			if i > 0 {
				src.WriteString(",")
			}
			fmt.Fprintf(&src, "%d", v)
		}
		fmt.Fprintf(&src, "} {\n\t\temit(\"%s\", v, fit.%s(v).String())\n\t}\n", t, t)
	}
	src.WriteString("}\n")
	// a file with unknown message numbers and fields: decoding it (with a
	// logger that formats its arguments) must not change what String() returns
	{
		st := newStream(12, false)
		st.FileId(0, 0, 4)
		for k, m := range []uint16{0xFF00, 291, 65346, 20, 0xFF42} {
			st.Def(1+k, byte(k%2), m, []FieldDef{{250, 1, 2}, {3, 1, 2}}, nil)
			st.Data(1+k, []byte{byte(k), 7})
		}
		st.Compressed(1, 3, []byte{1, 2})
		os.WriteFile(filepath.Join(dir, "in.fit"), st.Bytes(), 0o644)
	}
	os.WriteFile(filepath.Join(dir, "main.go"), src.Bytes(), 0o644)
	os.WriteFile(filepath.Join(dir, "go.mod"), []byte("module probe\n\ngo 1.21\n\nrequire github.com/tormoder/fit v0.0.0\n\nreplace github.com/tormoder/fit => "+repoDir+"\n"), 0o644)
	os.WriteFile(filepath.Join(dir, "go.sum"), mustRead(filepath.Join(repoDir, "go.sum")), 0o644)
	cmd := exec.Command("go", "run", ".", filepath.Join(dir, "in.fit"))
	cmd.Dir = dir
	var out, errb bytes.Buffer
	cmd.Stdout, cmd.Stderr = &out, &errb
	if err := cmd.Run(); err != nil {
		c.die("probe program failed: %v\n%s", err, tail(errb.String(), 1500))
	}
	var tb bytes.Buffer
	nev := 0
	stableSeen := false
	for _, line := range strings.Split(strings.TrimRight(out.String(), "\n"), "\n") {
		p := strings.SplitN(line, "\t", 3)
		if len(p) == 2 && p[0] == "STABLE" {
			b, _ := json.Marshal(map[string]interface{}{"kind": "stable", "equal": b2i(p[1] == ""), "detail": p[1]})
			tb.Write(b)
			tb.WriteByte('\n')
			stableSeen = true
			continue
		}
		if len(p) != 3 {
			continue
		}
		man := 0
		for _, t := range probeExtra {
			if t == p[0] {
				man = 1 // hand-written type: its table may keep the type prefix in the names
			}
		}
		b, _ := json.Marshal(map[string]interface{}{"kind": "str", "t": p[0], "v": p[1], "s": p[2], "man": man})
		tb.Write(b)
		tb.WriteByte('\n')
		nev++
	}
	if nev != nvals || !stableSeen {
		c.die("probe printed %d of %d values (stability line: %v)", nev, nvals, stableSeen)
	}
	// regeneration with the repository's stringer
	equal, detail := regenerate(c, typeList)
	b, _ := json.Marshal(map[string]interface{}{"kind": "regen", "equal": b2i(equal), "detail": detail})
	tb.Write(b)
	tb.WriteByte('\n')
	cj, _ := json.Marshal(consts)
	mm := c.validateTraces("Trace_Stringer", "TSpec", "Post", tb.Bytes(), map[string][]byte{"consts.json": cj}, 4)
	c.Traces += int64(nev + 1)
	for _, m := range mm {
		c.report(fmt.Sprintf("stringer:%v:%v", m["what"], m["t"]), fmt.Sprintf("String() disagrees with the lookup rule: %v", m), m)
	}
	nconst := 0
	for _, t := range typeList {
		nconst += len(consts[t])
	}
	c.Cov["types"] = len(typeList)
	c.Cov["constants"] = nconst
	c.Cov["values_printed"] = nvals
	c.Cov["regenerated_identical"] = equal
	c.Cov["evaluations"] = nvals
	c.Cov["distinct_nontrivial"] = nvals
	c.Cov["exhaustive"] = true
	c.Cov["rule"] = "every constant of every generated type, its neighbours, all 256 values of 8-bit types, small values and seeded samples of wider types; distinct = (type, value) pairs"
	c.sample(map[string]interface{}{"type": typeList[0], "constants": consts[typeList[0]]})
	c.finish()
}

// regenerate runs the repository's stringer on the checked-in types.go.
func regenerate(c *Ctx, typeList []string) (bool, string) {
	dir := c.scratchDir()
	os.MkdirAll(filepath.Join(dir, "fitstringer"), 0o755)
	os.WriteFile(filepath.Join(dir, "fitstringer", "stringer.go"), mustRead(filepath.Join(repoDir, "cmd/fitgen/internal/fitstringer/stringer.go")), 0o644)
	gomod := mustRead(filepath.Join(repoDir, "go.mod"))
	gomod = bytes.Replace(gomod, []byte("module github.com/tormoder/fit"), []byte("module regen"), 1)
	os.WriteFile(filepath.Join(dir, "go.mod"), gomod, 0o644)
	os.WriteFile(filepath.Join(dir, "go.sum"), mustRead(filepath.Join(repoDir, "go.sum")), 0o644)
	tl, _ := json.Marshal(typeList)
	main := fmt.Sprintf(`package main

import (
	"encoding/json"
	"fmt"
	"os"

	"regen/fitstringer"
)

func main() {
	var types []string
	json.Unmarshal([]byte(%q), &types)
	out, err := fitstringer.Generate(types, %q)
	if err != nil {
		fmt.Fprintln(os.Stderr, err)
		os.Exit(1)
	}
	os.Stdout.Write(out)
}
`, string(tl), filepath.Join(repoDir, "types.go"))
	os.WriteFile(filepath.Join(dir, "main.go"), []byte(main), 0o644)
	cmd := exec.Command("go", "run", ".", filepath.Join(dir, "in.fit"))
	cmd.Dir = dir
	var out, errb bytes.Buffer
	cmd.Stdout, cmd.Stderr = &out, &errb
	if err := cmd.Run(); err != nil {
		c.die("cannot run the repository's stringer: %v\n%s", err, tail(errb.String(), 1500))
	}
	want := mustRead(filepath.Join(repoDir, "types_string.go"))
	if bytes.Equal(out.Bytes(), want) {
		return true, ""
	}
	// first differing line
	a, b := strings.Split(out.String(), "\n"), strings.Split(string(want), "\n")
	for i := 0; i < len(a) && i < len(b); i++ {
		if a[i] != b[i] {
			return false, fmt.Sprintf("line %d: generated %q, checked in %q", i+1, a[i], b[i])
		}
	}
	return false, fmt.Sprintf("lengths differ: generated %d lines, checked in %d", len(a), len(b))
}

const probeHead = `package main

import (
	"bytes"
	"encoding/binary"
	"fmt"
	"io"
	"os"

	"github.com/tormoder/fit"
)

type lg struct{}

func (lg) Print(a ...interface{})            { fmt.Fprint(io.Discard, a...) }
func (lg) Printf(f string, a ...interface{}) { fmt.Fprintf(io.Discard, f, a...) }
func (lg) Println(a ...interface{})          { fmt.Fprintln(io.Discard, a...) }

func main() {
	var first []string
	probe(func(t string, v uint64, s string) {
		fmt.Printf("%s\t%d\t%s\n", t, v, s)
		first = append(first, s)
	})
	// ordinary use of the library in between
	b, _ := os.ReadFile(os.Args[1])
	f, _ := fit.Decode(bytes.NewReader(b), fit.WithLogger(lg{}), fit.WithUnknownFields(), fit.WithUnknownMessages())
	fit.DecodeChained(bytes.NewReader(append(append([]byte{}, b...), b...)), fit.WithLogger(lg{}))
	fit.CheckIntegrity(bytes.NewReader(b), false)
	if f != nil {
		fit.Encode(io.Discard, f, binary.BigEndian)
	}
	i, diff := 0, ""
	probe(func(t string, v uint64, s string) {
		if diff == "" && first[i] != s {
			diff = fmt.Sprintf("%s(%d) printed %q, after decoding a file it prints %q", t, v, first[i], s)
		}
		i++
	})
	fmt.Printf("STABLE\t%s\n", diff)
}

func probe(emit func(t string, v uint64, s string)) {
`
