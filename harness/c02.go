package main

import (
	"fmt"
	"os"
	"strings"
)

// systematicStreams: for every hosted (message, field), every compatible
// definition variant and both byte orders, single-field definitions with
// boundary values; each data record is followed by a sentinel neighbour so
// that "without disturbing neighbouring fields or messages" is observable.
func systematicStreams(p *Profile, sch *Schema, seed int64, valuesPer int) []*Stream {
	rng := newRng(seed)
	var out []*Stream
	done := map[int]bool{}
	for _, st := range sch.Types {
		for _, sl := range st.Slots {
			if done[sl.M] {
				continue
			}
			done[sl.M] = true
			pm := p.by[sl.M]
			if pm == nil {
				continue
			}
			for arch := byte(0); arch < 2; arch++ {
				s := newStream(12+2*int(arch), true)
				s.FileId(0, arch, byte(st.T))
				g := &generator{rng: rng, p: p, sch: sch, k: defaultKnobs(), now: 0x35000000}
				g.k.noTimeNoise = true
				for fi := range pm.Fields {
					pf := &pm.Fields[fi]
					var variants []FieldDef
					switch {
					case pf.K != 0:
						variants = []FieldDef{g.fieldDefFor(pf)}
					case pf.B == 7:
						variants = []FieldDef{{byte(pf.N), 1, 7}, {byte(pf.N), byte(pf.L), 7}, {byte(pf.N), 40, 7}}
					case pf.A == 1:
						es := baseSize[pf.B]
						variants = []FieldDef{{byte(pf.N), byte(es), baseByte[pf.B]}, {byte(pf.N), byte(3 * es), baseByte[pf.B]}}
					default:
						cands := unsignedIdx
						if baseSigned[pf.B] {
							cands = signedIdx
						}
						if pf.B == 8 || pf.B == 9 {
							cands = []int{pf.B}
						}
						for _, cb := range cands {
							if baseSize[cb] <= baseSize[pf.B] {
								variants = append(variants, FieldDef{byte(pf.N), byte(baseSize[cb]), baseByte[cb]})
							}
						}
					}
					for _, v := range variants {
						// the field alone, then with an unknown neighbour before and a known one after
						s.Def(1, arch, uint16(sl.M), []FieldDef{v}, nil)
						for k := 0; k < valuesPer; k++ {
							s.Data(1, g.payloadFor(s.defs[1]))
						}
						nb := []FieldDef{{250, 3, 0x0D}, v}
						if other := &pm.Fields[(fi+1)%len(pm.Fields)]; other.N != pf.N {
							nb = append(nb, g.fieldDefFor(other))
						}
						s.Def(2, arch, uint16(sl.M), nb, []DevDef{{0, 2, 0}})
						s.Data(2, g.payloadFor(s.defs[2]))
					}
				}
				out = append(out, s)
			}
		}
	}
	return out
}

func corpusCalls(p *Profile, c *Ctx, id *int, maxSize int, opts CallOpts) []*Call {
	var calls []*Call
	for _, f := range corpusFiles() {
		b, err := os.ReadFile(f)
		if err != nil || len(b) > maxSize {
			continue
		}
		*id++
		api := "decode"
		if strings.Contains(f, "chained") {
			api = "chained"
		}
		cl := p.runCall(*id, api, b, plain, opts, true)
		cl.Note = strings.TrimPrefix(f, repoDir+"/")
		calls = append(calls, cl)
	}
	return calls
}

// C02: decoded field values equal the values carried on the wire.
func runC02(c *Ctx) {
	p := exportProfile()
	sch := exportSchema()
	c.Assume = []string{
		"the Contract (spec/FitRef.tla, FitValues.tla) is the reference semantics; TLC evaluates it",
		"only messages that a file container holds are observable through the public API; fields of other messages are checked only for not disturbing their neighbours",
		"unpinned cases (DESIGN.md 2.4) are not compared: a narrow definition carrying its own type's invalid value, time/coordinate fields defined with another type, latitude of exactly +-2^30",
	}
	// Impl vs Contract for scalar fields (TLC, exhaustive over integer-like
	// types x compatible definition types x byte orders x boundary patterns);
	// the two pre-fix variants of the code must be refuted (non-vacuity)
	for _, v := range [][3]string{{"FALSE", "FALSE", "TRUE"}, {"TRUE", "FALSE", "FALSE"}, {"FALSE", "TRUE", "FALSE"}} {
		cfg := fmt.Sprintf("CONSTANTS\n PreFixBEShift = %s\n PreFixNoSignExt = %s\n Expect = %s\nINIT Init\nNEXT Next\n", v[0], v[1], v[2])
		r := c.runTLC(TLCRun{Module: "MC_ValuesImpl", Cfg: cfg, Workers: 1, HeapGB: 4, Files: map[string][]byte{"profile.json": p.json(), "schema.json": sch.json()}})
		if r.Exit != 0 {
			if strings.Contains(r.Out, "is false") {
				if v[2] == "TRUE" {
					c.report("values-model", "TLC: the transcription of parseDataFields/parseFitField (ValuesImpl) disagrees with the value Contract for some scalar definition:\n"+c.tlcTail(r), nil)
				} else {
					c.die("ValuesImpl with a pre-fix defect switched on still agrees with the Contract: the model is vacuous\n%s", c.tlcTail(r))
				}
				continue
			}
			c.die("TLC MC_ValuesImpl exit %d\n%s", r.Exit, c.tlcTail(r))
		}
		c.account(r)
	}
	c.Cov["valuesimpl_type_pairs"] = 50
	id := 0
	var calls []*Call
	// 1. device files
	calls = append(calls, corpusCalls(p, c, &id, c.pick(150000, 1<<30), CallOpts{UF: 1, UM: 1})...)
	// 2. every hosted (message, field, variant, byte order)
	sys := systematicStreams(p, sch, c.Seed, c.pick(2, 6))
	nfieldrec := 0
	for _, s := range sys {
		id++
		rs := plain
		if id%4 == 1 {
			rs = readScript{chunks: chunkScripts[1+id%(len(chunkScripts)-1)], cut: -1, fault: -1}
		}
		cl := p.runCall(id, "decode", s.Bytes(), rs, CallOpts{}, true)
		cl.Note = "systematic"
		calls = append(calls, cl)
		nfieldrec += len(s.bounds)
	}
	// 2b. large definitions: many fields and many developer fields
	for _, nf := range []int{0, 1, 85, 86, 170, 255} {
		for _, nd := range []int{-1, 0, 1, 4, 85, 86, 171, 255} {
			arch := byte((nf + nd) & 1)
			s := newStream(12, false)
			s.FileId(0, arch, 4)
			var fs []FieldDef
			for f := 0; f < nf; f++ {
				fs = append(fs, FieldDef{byte(f), 1, 0x02}) // heart_rate etc. and unknown numbers, one byte each
			}
			for f := range fs {
				if pf := p.field(20, int(fs[f].Num)); pf != nil {
					g0 := &generator{rng: newRng(c.Seed), p: p, sch: sch, k: defaultKnobs()}
					g0.k.pNarrow = 0
					fs[f] = g0.fieldDefFor(pf)
				}
			}
			var dev []DevDef
			if nd >= 0 {
				dev = []DevDef{}
				for d := 0; d < nd; d++ {
					sz := byte(d % 3)
					if nd <= 5 || d%40 == 7 {
						sz = byte(250 + d%6) // several hundred bytes of developer data per record
					}
					dev = append(dev, DevDef{byte(d), sz, 0})
				}
			}
			gg := &generator{rng: newRng(c.Seed + int64(nf*1000+nd)), p: p, sch: sch, k: defaultKnobs(), now: 0x33000000}
			gg.k.noTimeNoise = true
			s.Def(1, arch, 20, fs, dev)
			s.Data(1, gg.payloadFor(s.defs[1]))
			s.Data(1, gg.payloadFor(s.defs[1]))
			s.Def(2, arch, 20, []FieldDef{{3, 1, 2}}, nil)
			s.Data(2, []byte{99})
			id++
			cl := p.runCall(id, "decode", s.Bytes(), plain, CallOpts{}, true)
			cl.Note = fmt.Sprintf("large definition: %d fields, %d developer fields", nf, nd)
			calls = append(calls, cl)
		}
	}
	// 3. random profile-driven streams
	g := &generator{rng: newRng(c.Seed), p: p, sch: sch, k: defaultKnobs()}
	n := c.pick(250, 4000)
	for i := 0; i < n; i++ {
		id++
		// every third stream arrives in small or odd chunks: the values must not depend on it
		rs := plain
		if i%3 == 1 {
			rs = readScript{chunks: chunkScripts[1+i%(len(chunkScripts)-1)], cut: -1, fault: -1, withEOF: i%2 == 0}
		}
		cl := p.runCall(id, "decode", g.Generate().Bytes(), rs, CallOpts{}, true)
		cl.Note = "generated"
		calls = append(calls, cl)
	}
	// chains: every file of a chain decodes to the values its own bytes denote (nothing of the
	// previous file - a time reference, definitions - takes part)
	crng := newRng(c.Seed + 99)
	for i := 0; i < c.pick(30, 300); i++ {
		a, b := c12Stream(crng, crng.Intn(3)).Bytes(), c12Stream(crng, crng.Intn(3)).Bytes()
		id++
		cl := p.runCall(id, "chained", append(append([]byte{}, a...), b...), plain, CallOpts{}, true)
		cl.Note = "two timestamp streams chained"
		calls = append(calls, cl)
	}
	mm := c.validateCalls(p, sch, calls, 14)
	c.reportFamily(p, mm, nil)
	c.verdictStats(calls)
	c.Cov["calls"] = len(calls)
	c.Cov["systematic_records"] = nfieldrec
	c.Cov["evaluations"] = len(calls)
	c.Cov["distinct_nontrivial"] = countDistinctInputs(calls)
	c.Cov["rule"] = "one evaluation = one Decode call whose every produced message is compared field by field with the TLA+ reference decoder; distinct = distinct input byte strings that the Contract walked for at least 3 records"
	c.sample(map[string]interface{}{"kind": "systematic stream (first 120 bytes)", "bytes": toInts(sys[0].Bytes()[:120])})
	c.sample(map[string]interface{}{"kind": "corpus", "file": calls[0].Note, "contract_verdict": calls[0].Final, "records": calls[0].NRec})
	c.finish()
}

func countDistinctInputs(calls []*Call) int {
	seen := map[string]bool{}
	for _, cl := range calls {
		if cl.NRec >= 3 {
			seen[string(cl.raw)] = true
		}
	}
	return len(seen)
}
