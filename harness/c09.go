package main

import (
	"bytes"
	"encoding/json"
	"fmt"
	"io"
	"os"
	"os/exec"
	"path/filepath"
	"regexp"
	"sort"
	"strings"
	"sync"

	"github.com/tormoder/fit"
)

// ---------------------------------------------------------------------------
// Free-running stress under the race detector (child process of the -race build)

type stressSpec struct {
	Pool       string     `json:"pool"`
	Calls      []histCall `json:"calls"` // candidate calls
	Goroutines int        `json:"goroutines"`
	Iterations int        `json:"iterations"`
	Seed       int64      `json:"seed"`
}

// vcheck stress <spec.json>: all goroutines start at once in a fresh process
func runStress(args []string) {
	p := exportProfile()
	var sp stressSpec
	json.Unmarshal(mustRead(args[0]), &sp)
	var ap apiPool
	json.Unmarshal(mustRead(sp.Pool), &ap)
	// inputs are read before the goroutines start
	inputs := map[int][]byte{}
	for _, h := range sp.Calls {
		if h.API != "encode" {
			inputs[h.Idx] = ap.input(h.Idx)
		}
	}
	start := make(chan struct{})
	var wg sync.WaitGroup
	results := make([][]callResult, sp.Goroutines)
	for g := 0; g < sp.Goroutines; g++ {
		wg.Add(1)
		go func(g int) {
			defer wg.Done()
			rng := newRng(sp.Seed + int64(g))
			<-start
			for it := 0; it < sp.Iterations; it++ {
				h := sp.Calls[rng.Intn(len(sp.Calls))]
				h.G = g + 1
				results[g] = append(results[g], execCallInputs(p, &ap, h, inputs))
			}
		}(g)
	}
	close(start)
	wg.Wait()
	out := json.NewEncoder(os.Stdout)
	for g := range results {
		for _, r := range results[g] {
			out.Encode(r)
		}
	}
}

// execCallInputs is execCall with preloaded inputs and no watchdog goroutine
// (so that the race detector sees the decoder on the caller's goroutine).
func execCallInputs(p *Profile, ap *apiPool, h histCall, inputs map[int][]byte) (res callResult) {
	res = callResult{Key: h.key(), G: h.G}
	defer func() {
		// a call that panics under concurrency returns something else than when it runs alone
		if x := recover(); x != nil {
			res.Digest = digest(map[string]interface{}{"panic": fmt.Sprint(x)})
		}
	}()
	switch h.API {
	case "decode", "chained", "integrity":
		in := inputs[h.Idx]
		var files []*FileProj
		errv, consumed := 0, 0
		r := newScripted(in, nil)
		opts := []fit.DecodeOption{sharedUF, sharedUM}
		if h.G%2 == 0 {
			opts = append(opts, fit.WithLogger(nullLogger{})) // every other goroutine also asks for debug output
		}
		switch h.API {
		case "decode":
			f, err := fit.Decode(r, opts...)
			if f != nil {
				files = append(files, p.projFile(f))
			}
			if err != nil {
				errv = 1
			}
		case "chained":
			fs, err := fit.DecodeChained(r, opts...)
			for _, f := range fs {
				files = append(files, p.projFile(f))
			}
			if err != nil {
				errv = 1
			}
		case "integrity":
			if err := fit.CheckIntegrity(r, false); err != nil {
				errv = 1
			}
		}
		consumed = r.pos
		if files == nil {
			files = []*FileProj{}
		}
		res.Digest = digest(map[string]interface{}{"err": errv, "panic": 0, "files": files, "consumed": consumed})
	case "encode":
		return execCall(p, ap, h, false)
	}
	return res
}

var reRaceBlock = regexp.MustCompile(`(?s)WARNING: DATA RACE\n(.*?)\n==================`)
var reFrame = regexp.MustCompile(`(?m)^(?:Write|Read|Previous write|Previous read) at .*?:\n  (\S+)\(`)

// raceSigs extracts, per reported race, the pair of top-frame functions.
func raceSigs(stderr string) []string {
	set := map[string]bool{}
	for _, blk := range reRaceBlock.FindAllStringSubmatch(stderr, -1) {
		fr := reFrame.FindAllStringSubmatch(blk[1], -1)
		var fs []string
		for _, f := range fr {
			name := f[1]
			if i := strings.LastIndex(name, "/"); i >= 0 {
				name = name[i+1:]
			}
			fs = append(fs, name)
		}
		sort.Strings(fs)
		set[strings.Join(fs, " | ")] = true
	}
	var out []string
	for k := range set {
		out = append(out, k)
	}
	sort.Strings(out)
	return out
}

func isAccumulatorRace(sig string) bool {
	for _, f := range strings.Split(sig, " | ") {
		if !(strings.Contains(f, "expandComponents") || strings.Contains(f, "accumulate") || strings.Contains(f, "uint32NewAccumulator")) {
			return false
		}
	}
	return true
}

// ---------------------------------------------------------------------------
// Schedule replay: record-granularity interleavings forced through the reader

type gatedReader struct {
	chunks [][]byte // header, then one record per chunk, then CRC
	i      int
	parked chan struct{} // signalled when the goroutine arrives at a record Read
	turn   chan struct{} // released by the scheduler
	gateLo int           // chunks with index >= gateLo are gated (records)
	gateHi int
	buf    []byte
}

func (r *gatedReader) Read(p []byte) (int, error) {
	if len(r.buf) == 0 {
		if r.i >= len(r.chunks) {
			return 0, io.EOF
		}
		if r.i >= r.gateLo && r.i < r.gateHi {
			r.parked <- struct{}{}
			<-r.turn
		}
		r.buf = r.chunks[r.i]
		r.i++
	}
	n := copy(p, r.buf)
	r.buf = r.buf[n:]
	return n, nil
}

// modelStream turns an abstract ApiImpl input (accumulating values / plain
// records) into a real activity file; chunks: header, file_id definition,
// file_id data, the definitions, one chunk per modelled record, CRC.
func modelStream(recs []int) (whole []byte, chunks [][]byte, lo, hi int) {
	s := newStream(12, false)
	s.FileId(0, 0, 4)
	s.Def(1, 0, 20, []FieldDef{{8, 3, 0x0D}}, nil)              // compressed_speed_distance
	s.Def(2, 0, 20, []FieldDef{{3, 1, 2}, {253, 4, 0x86}}, nil) // heart_rate, timestamp
	pre := len(s.bounds)
	for i, v := range recs {
		if v < 0 {
			s.Data(2, append([]byte{byte(90 + i)}, u32le(uint32(0x38000000+i))...))
		} else {
			d := v * 300 % 4096
			s.Data(1, []byte{byte(10 + i), byte(d&0x0F) << 4, byte(d >> 4)})
		}
	}
	whole = s.Bytes()
	ends := s.RecordEnds()
	chunks = append(chunks, whole[:ends[pre-1]])
	lo = 1
	prev := ends[pre-1]
	for _, e := range ends[pre:] {
		chunks = append(chunks, whole[prev:e])
		prev = e
	}
	hi = len(chunks)
	chunks = append(chunks, whole[prev:])
	return
}

var modelInputs = [][]int{{5, -1, 2}, {-1, -1}, {7}}

// replaySchedule runs the calls of one TLC schedule on real goroutines and
// returns the digest of every returned File, per call in return order.
func replaySchedule(p *Profile, sched [][3]string) (got []callResult) {
	type run struct {
		rd     *gatedReader
		done   chan callResult
		served int
	}
	cur := map[string]*run{}
	for _, ev := range sched {
		g, act := ev[0], ev[1]
		switch act {
		case "call":
			var idx int
			fmt.Sscan(ev[2], &idx)
			_, chunks, lo, hi := modelStream(modelInputs[idx-1])
			r := &run{rd: &gatedReader{chunks: chunks, parked: make(chan struct{}), turn: make(chan struct{}), gateLo: lo, gateHi: hi}, done: make(chan callResult, 1)}
			cur[g] = r
			go func(idx int) {
				f, err := fit.Decode(r.rd)
				e := 0
				if err != nil {
					e = 1
				}
				files := []*FileProj{}
				if f != nil {
					files = append(files, p.projFile(f))
				}
				r.done <- callResult{Key: fmt.Sprintf("model/%d", idx), Digest: digest(map[string]interface{}{"err": e, "files": files}), Full: files}
			}(idx)
			if hi > lo {
				<-r.rd.parked // the goroutine has consumed the prefix and waits at its first record
			}
		case "step":
			r := cur[g]
			r.rd.turn <- struct{}{}
			r.served++
			// the goroutine processes that record completely and parks at the next one, or finishes
			if r.served < r.rd.gateHi-r.rd.gateLo {
				<-r.rd.parked
			}
		case "return":
			r := cur[g]
			res := <-r.done
			fmt.Sscan(g, &res.G)
			got = append(got, res)
			delete(cur, g)
		}
	}
	return got
}

var reEvent = regexp.MustCompile(`<<(\d+), \\?"(call|step|return)\\?", (\d+)>>`)

// C09: concurrent use on independent inputs is race-free and equals sequential use.
func runC09(c *Ctx) {
	p := exportProfile()
	sch := exportSchema()
	c.Level = "model_checking"
	c.Assume = []string{
		"ApiImpl.tla with two goroutines: TLC explores every interleaving of record-granularity steps (Load and Store of the process-wide accumulator as separate steps): NoRace and ResultsPure hold for per-call accumulators and fail for the design as implemented",
		"schedule replay: every schedule TLC enumerates is forced on real goroutines through the reader (one record per Read; a goroutine is released for exactly one record at a time), with no hook inside the decoder; results are compared with the sequential result of the same input",
		"data-race freedom itself is decided by the Go race detector on a -race build of the harness (free-running goroutines over the pool, started together in a fresh process); its reports enter the trace as observed facts that Trace_Api!NoRace forbids",
	}
	exe, _ := os.Executable()
	raceExe := filepath.Join(filepath.Dir(exe), "vcheck-race")
	if _, err := os.Stat(raceExe); err != nil {
		c.die("race build of the harness missing (%s): %v", raceExe, err)
	}
	dir := c.scratchDir()
	ap := buildAPIPool(c, p, sch, dir)
	poolFile := filepath.Join(dir, "pool.json")
	pb, _ := json.Marshal(ap)
	os.WriteFile(poolFile, pb, 0o644)

	// 1. model: all interleavings of 2 goroutines; schedules for replay
	apiModel(c, "MC_Procs2", 2, false)
	cfg := "CONSTANTS\n Procs <- MC_Procs2\n Inputs <- MC_Inputs\n SharedAcc = FALSE\n MaxCalls = 2\n Bits = 3\nSPECIFICATION Spec\nINVARIANTS EmitSchedules\nCHECK_DEADLOCK FALSE\n"
	r := c.runTLC(TLCRun{Module: "MC_ApiImpl", Cfg: cfg, Workers: 1, HeapGB: 4})
	if r.Exit != 0 {
		c.die("TLC MC_ApiImpl (schedules) exit %d\n%s", r.Exit, c.tlcTail(r))
	}
	c.account(r)
	var schedules [][][3]string
	seenS := map[string]bool{}
	for _, m := range reSchedule.FindAllStringSubmatch(r.Out, -1) {
		var s [][3]string
		for _, e := range reEvent.FindAllStringSubmatch(m[1], -1) {
			s = append(s, [3]string{e[1], e[2], e[3]})
		}
		if k := fmt.Sprint(s); len(s) > 0 && !seenS[k] {
			seenS[k] = true
			schedules = append(schedules, s)
		}
	}
	// sequential results of the model inputs (fresh accumulators each)
	seq := map[string]string{}
	for i, recs := range modelInputs {
		whole, _, _, _ := modelStream(recs)
		fit.VerifResetAccumulators()
		f, err := fit.Decode(bytes.NewReader(whole))
		e := 0
		if err != nil {
			e = 1
		}
		files := []*FileProj{}
		if f != nil {
			files = append(files, p.projFile(f))
		}
		seq[fmt.Sprintf("model/%d", i+1)] = digest(map[string]interface{}{"err": e, "files": files})
	}
	var tb bytes.Buffer
	type ev struct {
		Kind   string `json:"kind"`
		G      int    `json:"g"`
		Key    string `json:"key"`
		Result string `json:"result"`
		A      string `json:"a"`
		B      string `json:"b"`
	}
	nsched := 0
	concurrent := 0
	maxSched := c.pick(400, 100000)
	for i, s := range schedules {
		if i >= maxSched {
			break
		}
		// only schedules in which the two calls overlap are interesting; keep all
		fit.VerifResetAccumulators()
		res := replaySchedule(p, s)
		evs := []ev{}
		for _, r := range res {
			evs = append(evs, ev{Kind: "call", G: r.G, Key: r.Key, Result: r.Digest})
		}
		b, _ := json.Marshal(map[string]interface{}{"id": i + 1, "events": evs})
		tb.Write(b)
		tb.WriteByte('\n')
		nsched++
		if len(s) > 2 && s[1][1] == "call" || overlaps(s) {
			concurrent++
		}
	}
	// 2. free-running stress under the race detector: a pool without
	// accumulating inputs must be clean; the whole pool shows the known race
	var clean, all []histCall
	for i := 0; i < ap.NDec; i++ {
		if ap.isSolo(i) {
			continue
		}
		note := ap.Notes[i]
		acc := strings.Contains(note, "component stream") || strings.Contains(note, "compressed-speed-distance") || strings.Contains(note, "generated stream") || strings.Contains(note, "chain: A")
		api := "decode"
		if i >= ap.ChainN {
			api = "chained"
		}
		for _, a := range []string{api, "integrity"} {
			h := histCall{API: a, Idx: i}
			all = append(all, h)
			if !acc {
				clean = append(clean, h)
			}
		}
	}
	for i := range ap.Enc {
		h := histCall{API: "encode", Idx: i}
		all = append(all, h)
		clean = append(clean, h)
	}
	// Pure table from fresh non-race processes
	pure := map[string]string{}
	{
		var wg sync.WaitGroup
		var mu sync.Mutex
		sem := make(chan struct{}, 16)
		for _, h := range all {
			wg.Add(1)
			sem <- struct{}{}
			go func(h histCall) {
				defer wg.Done()
				defer func() { <-sem }()
				sp := stressSpec{Pool: poolFile, Calls: []histCall{h}, Goroutines: 1, Iterations: 1, Seed: 1}
				res, _ := c.runStressChild(exe, dir, sp)
				if len(res) != 1 {
					c.die("baseline stress child returned %d results", len(res))
				}
				mu.Lock()
				pure[h.key()] = res[0].Digest
				mu.Unlock()
			}(h)
		}
		wg.Wait()
	}
	for k, v := range seq {
		pure[k] = v
	}
	races := map[string]int{}
	stressRuns := 0
	// one phase per entry point as well: calls of the same kind overlap far
	// more often than in the mixed phases (state shared by one path only)
	phases := [][]histCall{clean, all}
	phaseNames := []string{"clean pool", "whole pool"}
	for _, api := range []string{"integrity", "decode", "chained", "encode"} {
		var only []histCall
		for _, h := range clean {
			if h.API == api {
				only = append(only, h)
			}
		}
		if len(only) > 0 {
			phases = append(phases, only)
			phaseNames = append(phaseNames, "clean pool, "+api+" only")
		}
	}
	for phase, calls := range phases {
		rounds := c.pick(3, 12)
		iters := c.pick(12, 40)
		if phase >= 2 {
			// one entry point only: more and longer runs, so that rare overlaps (a failing call,
			// then two calls at once on what it left behind) do occur
			rounds = c.pick(3, 8)
			iters = c.pick(30, 80)
		}
		for rd := 0; rd < rounds; rd++ {
			sp := stressSpec{Pool: poolFile, Calls: calls, Goroutines: 8, Iterations: iters, Seed: c.Seed*100 + int64(rd)}
			res, stderr := c.runStressChild(raceExe, dir, sp)
			stressRuns++
			evs := []ev{}
			for _, r := range res {
				evs = append(evs, ev{Kind: "call", G: r.G, Key: r.Key, Result: r.Digest})
			}
			for _, sig := range raceSigs(stderr) {
				races[sig]++
				evs = append(evs, ev{Kind: "race", A: sig, B: phaseNames[phase]})
			}
			b, _ := json.Marshal(map[string]interface{}{"id": 100000 + phase*1000 + rd, "events": evs})
			tb.Write(b)
			tb.WriteByte('\n')
		}
	}
	pj, _ := json.Marshal(pure)
	mm := c.validateTraces("Trace_Api", "TSpec", "Post", tb.Bytes(), map[string][]byte{"pure.json": pj}, 4)
	c.Traces += int64(nsched + stressRuns)
	for _, m := range mm {
		what := str(m["what"])
		if what == "data race" {
			sig := "race:" + str(m["a"])
			if isAccumulatorRace(str(m["a"])) {
				sig = "race:accumulators"
			}
			c.report(sig, fmt.Sprintf("the race detector reports a data race between concurrent calls on independent inputs (%s): %s", str(m["b"]), str(m["a"])), m)
			continue
		}
		key := str(m["key"])
		sig := "concurrent-result-differs:" + key
		if strings.HasPrefix(key, "model/") {
			sig = "concurrent-result-differs:model accumulating input"
			if key == "model/2" {
				sig = "concurrent-result-differs:model plain input"
			}
		} else if i := strings.Index(key, "/"); i > 0 {
			var idx int
			fmt.Sscan(key[i+1:], &idx)
			if key[:i] != "encode" && idx < len(ap.Notes) {
				n := ap.Notes[idx]
				if strings.Contains(n, "component stream") || strings.Contains(n, "compressed-speed-distance") || strings.Contains(n, "chain: A") || strings.Contains(n, "generated stream") {
					sig = "concurrent-result-differs:input with accumulated fields"
				}
			}
		}
		c.report(sig, fmt.Sprintf("a call returns something else when other calls run concurrently than when it runs alone (%s, trace %v)", key, m["trace"]), m)
	}
	c.Cov["schedules_replayed"] = nsched
	c.Cov["schedules_with_overlapping_calls"] = concurrent
	c.Cov["stress_runs_under_race_detector"] = stressRuns
	c.Cov["race_signatures"] = races
	c.Cov["evaluations"] = nsched + stressRuns
	c.Cov["distinct_nontrivial"] = concurrent + stressRuns
	c.Cov["rule"] = "every record-granularity interleaving TLC enumerates for two concurrent Decode calls over the model's three inputs, forced through gated readers; plus free-running stress (8 goroutines, random pool calls of Decode / DecodeChained / CheckIntegrity / Encode) under the race detector, once over a pool without accumulated fields, once over the whole pool, and once per entry point (only calls of that kind, so that they overlap) over the pool without accumulated fields; the pool holds files larger than 4 KiB, 32 KiB and 64 KiB"
	if len(schedules) > 0 {
		c.sample(map[string]interface{}{"kind": "schedule", "events": schedules[len(schedules)/2]})
	}
	c.finish()
}

func overlaps(s [][3]string) bool {
	open := 0
	for _, e := range s {
		switch e[1] {
		case "call":
			open++
			if open > 1 {
				return true
			}
		case "return":
			open--
		}
	}
	return false
}

func (c *Ctx) runStressChild(exe, dir string, sp stressSpec) ([]callResult, string) {
	f, _ := os.CreateTemp(dir, "stress-*.json")
	b, _ := json.Marshal(sp)
	f.Write(b)
	f.Close()
	defer os.Remove(f.Name())
	cmd := exec.Command(exe, "stress", f.Name())
	cmd.Env = append(os.Environ(), "GORACE=halt_on_error=0 exitcode=0")
	var stdout, stderr bytes.Buffer
	cmd.Stdout, cmd.Stderr = &stdout, &stderr
	if err := cmd.Run(); err != nil && stdout.Len() == 0 {
		// the Go runtime ends the process when goroutines collide on a map (not a
		// panic: nothing can recover it). With more than one goroutine that is what
		// concurrent use did to the calls - none of them returned what it returns alone
		if se := stderr.String(); sp.Goroutines > 1 && (strings.Contains(se, "fatal error: concurrent map") || strings.Contains(se, "fatal error: sync:")) {
			line := "fatal error"
			for _, l := range strings.Split(se, "\n") {
				if strings.HasPrefix(l, "fatal error:") {
					line = l
					break
				}
			}
			c.report("concurrent-crash:"+line, "the process is ended by the Go runtime while independent calls run concurrently: "+line, map[string]interface{}{"stderr": tail(se, 3000), "calls": sp.Calls})
			return nil, se
		}
		c.die("stress child failed: %v\n%s", err, tail(stderr.String(), 2000))
	}
	var out []callResult
	dec := json.NewDecoder(&stdout)
	for dec.More() {
		var r callResult
		if err := dec.Decode(&r); err != nil {
			break
		}
		out = append(out, r)
	}
	return out, stderr.String()
}

func tail(s string, n int) string {
	if len(s) > n {
		return s[len(s)-n:]
	}
	return s
}
