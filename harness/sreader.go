package main

import (
	"errors"
	"io"
)

var errFault = errors.New("verif: injected read fault")

// scriptedReader serves an input according to a script and records every
// Read call. It implements io.Reader only (no WriterTo/ByteReader/Seeker).
type scriptedReader struct {
	data    []byte
	pos     int
	chunks  []int // successive chunk sizes (cycled); empty = whole request
	ci      int
	cut     int  // bytes available before EOF (-1 = all)
	fault   int  // offset at which a non-EOF error is returned (-1 = never)
	withEOF bool // last bytes are returned together with io.EOF
	withErr bool // last bytes before a fault are returned together with the fault
	reads   [][3]int
	maxLog  int
	past    bool // a Read was served after EOF/fault was already returned
	ended   bool
	ferr    error // the fault's error value (errFault unless the script names another)
}

// lenReader is a scriptedReader that also tells how much is left, as
// bytes.Reader, bytes.Buffer and strings.Reader do.
type lenReader struct{ *scriptedReader }

func (r lenReader) Len() int {
	end := len(r.data)
	if r.cut >= 0 && r.cut < end {
		end = r.cut
	}
	if r.fault >= 0 && r.fault < end {
		end = r.fault
	}
	if r.pos >= end {
		return 0
	}
	return end - r.pos
}

func newScripted(data []byte, chunks []int) *scriptedReader {
	return &scriptedReader{data: data, chunks: chunks, cut: -1, fault: -1, maxLog: 1 << 30, ferr: errFault}
}

const (
	rOK    = 0
	rEOF   = 1
	rFault = 2
)

func (r *scriptedReader) log(req, n, e int) {
	if len(r.reads) < r.maxLog {
		r.reads = append(r.reads, [3]int{req, n, e})
	}
}

func (r *scriptedReader) Read(p []byte) (int, error) {
	req := len(p)
	if req == 0 {
		r.log(0, 0, rOK)
		return 0, nil
	}
	end := len(r.data)
	if r.cut >= 0 && r.cut < end {
		end = r.cut
	}
	if r.fault >= 0 && r.fault < end {
		end = r.fault
	}
	if r.pos >= end {
		if r.ended {
			r.past = true
		}
		r.ended = true
		if r.fault >= 0 && r.pos >= r.fault {
			r.log(req, 0, rFault)
			return 0, r.ferr
		}
		r.log(req, 0, rEOF)
		return 0, io.EOF
	}
	n := req
	if len(r.chunks) > 0 {
		c := r.chunks[r.ci%len(r.chunks)]
		r.ci++
		if c < 1 {
			c = 1
		}
		if c < n {
			n = c
		}
	}
	if r.pos+n > end {
		n = end - r.pos
	}
	copy(p, r.data[r.pos:r.pos+n])
	r.pos += n
	if r.withEOF && r.pos == end && !(r.fault >= 0 && r.pos >= r.fault) {
		r.ended = true
		r.log(req, n, rEOF)
		return n, io.EOF
	}
	if r.withErr && r.pos == end && r.fault >= 0 && r.pos >= r.fault {
		r.ended = true
		r.log(req, n, rFault)
		return n, r.ferr
	}
	r.log(req, n, rOK)
	return n, nil
}

func (r *scriptedReader) readsJSON() [][]int {
	out := make([][]int, len(r.reads))
	for i, x := range r.reads {
		out[i] = []int{x[0], x[1], x[2]}
	}
	return out
}

// seekReader is a scriptedReader that can also seek, as *os.File and
// bytes.Reader can: what a call consumed is still the reader's position.
type seekReader struct{ *scriptedReader }

func (r seekReader) Seek(offset int64, whence int) (int64, error) {
	var abs int64
	switch whence {
	case io.SeekStart:
		abs = offset
	case io.SeekCurrent:
		abs = int64(r.pos) + offset
	case io.SeekEnd:
		abs = int64(len(r.data)) + offset
	}
	if abs < 0 {
		return 0, errors.New("verif: negative position")
	}
	r.pos = int(abs)
	r.ended = false
	return abs, nil
}
