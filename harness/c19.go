package main

import (
	"archive/zip"
	"bytes"
	"encoding/json"
	"fmt"
	"go/ast"
	"go/parser"
	"go/token"
	"math/rand"
	"os"
	"os/exec"
	"path/filepath"
	"regexp"
	"strconv"
	"strings"
	"sync"

	"github.com/tealeg/xlsx"
)

type wbRow struct {
	N    int    `json:"n"`
	Name string `json:"name"`
	B    int    `json:"b"`
	A    int    `json:"a"`
	K    int    `json:"k"`
	On   int    `json:"on"`
	row  *xlsx.Row
	deps []string // field names (same message) this row needs while enabled
	subs []*xlsx.Row
}

type wbMsg struct {
	Name    string        `json:"name"`
	Rows    []*wbRow      `json:"rows"`
	Struct  []string      `json:"struct"`
	Entries []interface{} `json:"entries"`
}

func cellStr(r *xlsx.Row, i int) string {
	if r == nil || i >= len(r.Cells) {
		return ""
	}
	return strings.TrimSpace(r.Cells[i].String())
}

func splitNames(s string) []string {
	var out []string
	for _, p := range strings.Split(s, ",") {
		if p = strings.TrimSpace(p); p != "" {
			out = append(out, p)
		}
	}
	return out
}

// loadWorkbook parses the messages sheet into rows with their dependencies.
func loadWorkbook(data []byte) (*xlsx.File, []*wbMsg, error) {
	wb, msgs, _, err := loadWorkbookT(data)
	return wb, msgs, err
}

type wbType struct {
	Name  string                 `json:"name"`
	B     int                    `json:"b"`
	Vals  [][]string             `json:"vals"`
	Found int                    `json:"found"`
	Obs   map[string]interface{} `json:"obs"`
	camel string
}

var typeRenames = map[string]string{"activity": "activity_mode", "file": "file_type"}

func loadWorkbookT(data []byte) (*xlsx.File, []*wbMsg, []*wbType, error) {
	wb, err := xlsx.OpenBinary(data)
	if err != nil {
		return nil, nil, nil, err
	}
	var types []*wbType
	var curT *wbType
	for _, r := range wb.Sheets[0].Rows[1:] {
		if n := cellStr(r, 0); n != "" {
			curT = nil
			if n == "date_time" || n == "local_date_time" {
				continue
			}
			bi, ok := baseIdxByName[cellStr(r, 1)]
			if !ok {
				continue
			}
			name := n
			if rn, ok := typeRenames[n]; ok {
				name = rn
			}
			curT = &wbType{Name: normName(name), B: bi, Vals: [][]string{}, Obs: map[string]interface{}{"bits": 0, "consts": [][]string{}}}
			types = append(types, curT)
			continue
		}
		if curT != nil && cellStr(r, 2) != "" {
			v, err := strconv.ParseUint(cellStr(r, 3), 0, 64)
			if err != nil {
				continue
			}
			curT.Vals = append(curT.Vals, []string{normName(cellStr(r, 2)), strconv.FormatUint(v, 10)})
		}
	}
	typeBase := map[string]string{}
	for _, r := range wb.Sheets[0].Rows[1:] {
		if n := cellStr(r, 0); n != "" {
			typeBase[n] = cellStr(r, 1)
		}
	}
	var msgs []*wbMsg
	var cur *wbMsg
	var main *wbRow
	enabled := func(r *xlsx.Row) bool { e := cellStr(r, 15); return e != "" && e != "0" }
	for _, r := range wb.Sheets[1].Rows[1:] {
		if n := cellStr(r, 0); n != "" {
			cur = &wbMsg{Name: n}
			msgs = append(msgs, cur)
			main = nil
			continue
		}
		if cur == nil || cellStr(r, 2) == "" {
			continue
		}
		if num := cellStr(r, 1); num != "" {
			n, err := strconv.Atoi(num)
			if err != nil {
				continue
			}
			name, typ := cellStr(r, 2), cellStr(r, 3)
			bt := typ
			if b, ok := typeBase[typ]; ok {
				bt = b
			}
			row := &wbRow{N: n, Name: normName(name), B: baseIdxByName[bt], A: b2i(cellStr(r, 4) != ""), On: b2i(enabled(r)), row: r}
			switch {
			case typ == "date_time":
				row.K, row.B = 1, 6
			case typ == "local_date_time":
				row.K, row.B = 2, 6
			case strings.HasSuffix(name, "_lat"):
				row.K, row.B = 3, 5
			case strings.HasSuffix(name, "_long"):
				row.K, row.B = 4, 5
			}
			if typ == "bool" {
				row.B = 0
			}
			row.deps = append(row.deps, splitNames(cellStr(r, 5))...)
			cur.Rows = append(cur.Rows, row)
			main = row
		} else if main != nil {
			// sub-field of the last main field
			main.subs = append(main.subs, r)
			if enabled(r) {
				main.deps = append(main.deps, splitNames(cellStr(r, 5))...)
				main.deps = append(main.deps, splitNames(cellStr(r, 11))...)
			}
		}
	}
	return wb, msgs, types, nil
}

// selectRows disables a seeded random dependency-closed set of enabled rows.
func selectRows(rng *rand.Rand, msgs []*wbMsg, p float64, only func(*wbRow) bool) (disabled int) {
	for _, m := range msgs {
		// sub-field rows first: disabling one removes its dependencies
		for _, r := range m.Rows {
			if r.On == 0 || only != nil {
				continue
			}
			changed := false
			for _, sr := range r.subs {
				if e := cellStr(sr, 15); e != "" && e != "0" && rng.Float64() < p/2 {
					sr.Cells[15].SetString("")
					changed = true
				}
			}
			if changed {
				r.deps = splitNames(cellStr(r.row, 5))
				for _, sr := range r.subs {
					if e := cellStr(sr, 15); e != "" && e != "0" {
						r.deps = append(r.deps, splitNames(cellStr(sr, 5))...)
						r.deps = append(r.deps, splitNames(cellStr(sr, 11))...)
					}
				}
			}
		}
		want := map[*wbRow]bool{}
		for _, r := range m.Rows {
			want[r] = r.On == 1 && rng.Float64() < p && (only == nil || only(r))
		}
		// to a fixpoint, so that the order of the rows does not matter
		for pass := 0; pass < 4; pass++ {
			for _, i := range rng.Perm(len(m.Rows)) {
				r := m.Rows[i]
				if r.On == 0 || !want[r] {
					continue
				}
				needed := false
				for _, o := range m.Rows {
					if o == r || o.On == 0 {
						continue
					}
					for _, d := range o.deps {
						if normName(d) == r.Name {
							needed = true
						}
					}
				}
				if needed {
					continue
				}
				r.On = 0
				r.row.Cells[15].SetString("")
				disabled++
			}
		}
	}
	return
}

var reSDKLine = regexp.MustCompile(`(?m)^// SDK Version: (\d+)\.(\d+)$`)
var reMajor = regexp.MustCompile(`ProfileMajorVersion = (\d+)`)
var reMinor = regexp.MustCompile(`ProfileMinorVersion = (\d+)`)

func camelToNorm(s string) string { return normName(s) }

// parseGenerated extracts struct fields and lookup entries from generated code.
func parseGenerated(dir string, msgs []*wbMsg) error {
	fset := token.NewFileSet()
	mf, err := parser.ParseFile(fset, filepath.Join(dir, "messages.go"), nil, 0)
	if err != nil {
		return err
	}
	structs := map[string][]string{}
	ast.Inspect(mf, func(n ast.Node) bool {
		ts, ok := n.(*ast.TypeSpec)
		if !ok {
			return true
		}
		st, ok := ts.Type.(*ast.StructType)
		if !ok || !strings.HasSuffix(ts.Name.Name, "Msg") {
			return true
		}
		var names []string
		for _, f := range st.Fields.List {
			for _, id := range f.Names {
				names = append(names, camelToNorm(id.Name))
			}
		}
		structs[camelToNorm(strings.TrimSuffix(ts.Name.Name, "Msg"))] = names
		return true
	})
	pf, err := parser.ParseFile(fset, filepath.Join(dir, "profile.go"), nil, 0)
	if err != nil {
		return err
	}
	entries := map[string][]interface{}{}
	ast.Inspect(pf, func(n ast.Node) bool {
		vs, ok := n.(*ast.ValueSpec)
		if !ok || len(vs.Names) != 1 || vs.Names[0].Name != "_fields" || len(vs.Values) != 1 {
			return true
		}
		cl, ok := vs.Values[0].(*ast.CompositeLit)
		if !ok {
			return true
		}
		for _, e := range cl.Elts {
			kv, ok := e.(*ast.KeyValueExpr)
			if !ok {
				continue
			}
			key, _ := kv.Key.(*ast.Ident)
			inner, _ := kv.Value.(*ast.CompositeLit)
			if key == nil || inner == nil {
				continue
			}
			mname := camelToNorm(strings.TrimPrefix(key.Name, "MesgNum"))
			list := []interface{}{}
			for _, fe := range inner.Elts {
				fkv, ok := fe.(*ast.KeyValueExpr)
				if !ok {
					continue
				}
				fl, _ := fkv.Value.(*ast.CompositeLit)
				if fl == nil || len(fl.Elts) != 4 {
					continue
				}
				lit := func(x ast.Expr) int {
					if c, ok := x.(*ast.CallExpr); ok && len(c.Args) == 1 {
						x = c.Args[0]
					}
					if b, ok := x.(*ast.BasicLit); ok {
						v, _ := strconv.Atoi(b.Value)
						return v
					}
					return -1
				}
				num := lit(fkv.Key)
				t := lit(fl.Elts[2])
				list = append(list, map[string]int{"n": num, "s": lit(fl.Elts[0]), "b": t & 0x1F, "a": (t >> 5) & 1, "k": (t >> 6) & 7})
				if lit(fl.Elts[1]) != num {
					list = append(list, map[string]int{"n": -1, "s": -1, "b": 0, "a": 0, "k": 0})
				}
			}
			entries[mname] = list
		}
		return false
	})
	for _, m := range msgs {
		k := normName(m.Name)
		m.Struct = structs[k]
		if m.Struct == nil {
			m.Struct = []string{}
		}
		m.Entries = entries[k]
		if m.Entries == nil {
			m.Entries = []interface{}{}
		}
	}
	return nil
}

var supportFiles = []string{"pfield.go", "accumu.go", "time.go", "latlng.go", "types_man.go"}

// compileGenerated builds the four generated files with the hand-written
// files they reference.
func compileGenerated(scratch, gen string) (bool, string) {
	mod := filepath.Join(scratch, "build")
	os.RemoveAll(mod)
	os.MkdirAll(filepath.Join(mod, "internal", "types"), 0o755)
	os.WriteFile(filepath.Join(mod, "go.mod"), []byte("module github.com/tormoder/fit\n\ngo 1.15\n"), 0o644)
	for _, f := range supportFiles {
		os.WriteFile(filepath.Join(mod, f), mustRead(filepath.Join(repoDir, f)), 0o644)
	}
	ents, _ := os.ReadDir(filepath.Join(repoDir, "internal", "types"))
	for _, e := range ents {
		if strings.HasSuffix(e.Name(), ".go") && !strings.HasSuffix(e.Name(), "_test.go") {
			os.WriteFile(filepath.Join(mod, "internal", "types", e.Name()), mustRead(filepath.Join(repoDir, "internal", "types", e.Name())), 0o644)
		}
	}
	for _, f := range []string{"types.go", "messages.go", "profile.go", "types_string.go"} {
		os.WriteFile(filepath.Join(mod, f), mustRead(filepath.Join(gen, f)), 0o644)
	}
	cmd := exec.Command("go", "build", "./...")
	cmd.Dir = mod
	cmd.Env = append(os.Environ(), "GOFLAGS=-mod=mod")
	out, err := cmd.CombinedOutput()
	os.RemoveAll(mod)
	return err == nil, tail(string(out), 600)
}

// C19: fitgen yields valid, deterministic code for every product-profile selection.
func runC19(c *Ctx) {
	c.Level = "translation_validation"
	c.Assume = []string{
		"FitGen.tla states the relation between the enabled rows of a workbook and the generated struct fields / lookup entries; TLC checks it on the generator's row-by-row state machine for all 64 selections of a toy message, and validates every observed run of the real fitgen command against it",
		"\"the library's support code\" is read as the hand-written files the generated code needs (pfield.go, accumu.go, time.go, latlng.go, types_man.go, internal/types): file.go / file_types.go are maintained by hand for SDK 21.115 and do not build against any of the five bundled workbooks, stock selections included",
		"compilation (go build) and byte-identity (two runs compared) are decided by the Go toolchain and cmp; they enter the trace as facts",
		"dependencies of a row are read from the workbook by the harness: component names of the row and of its enabled sub-fields, and the reference fields of its enabled sub-fields",
	}
	// toy model
	r := c.runTLC(TLCRun{Module: "MC_FitGen", Cfg: "INIT Init\nNEXT Next\n", Workers: 1, HeapGB: 2})
	if r.Exit != 0 {
		if strings.Contains(r.Out, "is false") {
			c.report("fitgen-model", "TLC: the generator state machine violates the row/entry relation on the toy workbook:\n"+c.tlcTail(r), nil)
		} else {
			c.die("TLC MC_FitGen exit %d\n%s", r.Exit, c.tlcTail(r))
		}
	}
	c.account(r)
	scratch := c.scratchDir()
	fitgen := filepath.Join(scratch, "fitgen")
	cmd := exec.Command("go", "build", "-o", fitgen, "./cmd/fitgen")
	cmd.Dir = repoDir
	if out, err := cmd.CombinedOutput(); err != nil {
		c.die("cannot build fitgen: %v\n%s", err, out)
	}
	workbooks := []string{"16.20", "20.14", "20.27", "20.43", "21.40"}
	per := c.pick(4, 24)
	type job struct {
		wb     string
		k      int
		dir    string
		byType string // disable every row of this field type (as far as nothing enabled depends on it)
	}
	var jobs []job
	for _, wb := range workbooks {
		for k := 0; k < per; k++ {
			jobs = append(jobs, job{wb, k, filepath.Join(scratch, fmt.Sprintf("run-%s-%d", wb, k)), ""})
		}
	}
	// profiles without any field of one type: what the generated code imports
	// and declares must follow the fields that are left
	byTypes := []string{"date_time", "local_date_time", "string", "byte", "float32", "sint32", "uint8z", "bool"}
	for i, t := range byTypes {
		if !c.thorough() && i%4 != int(c.Seed)%4 && t != "date_time" {
			continue
		}
		wb := workbooks[(i+len(workbooks)-1)%len(workbooks)]
		jobs = append(jobs, job{wb, 2 + 2*i, filepath.Join(scratch, fmt.Sprintf("run-%s-type-%s", wb, t)), t})
	}
	// stock output of every workbook, to regenerate over
	stock := map[string]string{}
	for _, wbn := range workbooks {
		d := filepath.Join(scratch, "stock-"+wbn)
		os.MkdirAll(d, 0o755)
		cmd := exec.Command(fitgen, "-sdk", wbn, filepath.Join(repoDir, "cmd/fitgen/internal/profile/testdata", wbn+".xlsx"), d)
		if out, err := cmd.CombinedOutput(); err != nil {
			c.report("fitgen:stock:"+wbn, "fitgen fails on the bundled workbook "+wbn+": "+tail(string(out), 400), nil)
		}
		stock[wbn] = d
	}
	results := make([]map[string]interface{}, len(jobs))
	var wg sync.WaitGroup
	sem := make(chan struct{}, 6)
	for ji, j := range jobs {
		wg.Add(1)
		sem <- struct{}{}
		go func(ji int, j job) {
			defer wg.Done()
			defer func() { <-sem }()
			rng := newRng(c.Seed*7919 + int64(ji))
			data := mustRead(filepath.Join(repoDir, "cmd/fitgen/internal/profile/testdata", j.wb+".xlsx"))
			wb, msgs, wtypes, err := loadWorkbookT(data)
			if err != nil {
				c.die("workbook %s: %v", j.wb, err)
			}
			ndis := 0
			if j.byType != "" {
				ndis = selectRows(rng, msgs, 1, func(r *wbRow) bool { return cellStr(r.row, 3) == j.byType })
			} else if j.k > 0 { // k = 0: the stock selection
				ndis = selectRows(rng, msgs, []float64{0.9, 0.3, 0.7}[j.k%3], nil)
			}
			os.MkdirAll(j.dir, 0o755)
			var buf bytes.Buffer
			wb.Write(&buf)
			input := "xlsx"
			inPath := filepath.Join(j.dir, "Profile.xlsx")
			args := []string{"-sdk", j.wb}
			if j.k%2 == 1 {
				input = "zip"
				inPath = filepath.Join(j.dir, "FitSDKRelease_"+j.wb+".00.zip")
				zf, _ := os.Create(inPath)
				zw := zip.NewWriter(zf)
				// an SDK archive as shipped / re-packed: other members around the
				// workbook, and (archives made on macOS) an AppleDouble companion
				// "._Profile.xlsx" after it, which is not a workbook
				root := "FitSDKRelease_" + j.wb + ".00/"
				for _, other := range []string{"README.txt", "c/fit.h", "Profile.xlsx.txt"} {
					ow, _ := zw.Create(root + other)
					ow.Write([]byte("not the workbook\n"))
				}
				w, _ := zw.Create(root + "Profile.xlsx")
				w.Write(buf.Bytes())
				if j.k%4 == 1 {
					aw, _ := zw.Create("__MACOSX/" + root + "._Profile.xlsx")
					aw.Write([]byte("\x00\x05\x16\x07\x00\x02\x00\x00Mac OS X        "))
				}
				zw.Close()
				zf.Close()
				args = nil
				if j.k%4 == 3 {
					// an archive under another name: the version then comes from -sdk
					np := filepath.Join(j.dir, "sdk.zip")
					os.Rename(inPath, np)
					inPath = np
					args = []string{"-sdk", j.wb}
				}
			} else {
				os.WriteFile(inPath, buf.Bytes(), 0o644)
			}
			res := map[string]interface{}{"id": ji + 1, "workbook": j.wb, "input": input, "sdk": j.wb, "disabled": ndis, "log": "", "differs": ""}
			outs := []string{filepath.Join(j.dir, "out1"), filepath.Join(j.dir, "out2")}
			var logs string
			for i, o := range outs {
				os.MkdirAll(o, 0o755)
				if i == 1 {
					// the second run regenerates over an existing (stock, hence longer) output
					for _, f := range []string{"types.go", "messages.go", "profile.go", "types_string.go"} {
						os.WriteFile(filepath.Join(o, f), mustRead(filepath.Join(stock[j.wb], f)), 0o600)
					}
				}
				cmd := exec.Command(fitgen, append(append([]string{}, args...), inPath, o)...)
				if j.k%3 == 2 {
					// the command as typed in a shell: input and output given relative to the working directory
					cmd = exec.Command(fitgen, append(append([]string{}, args...), filepath.Base(inPath), filepath.Base(o))...)
					cmd.Dir = j.dir
				}
				out, err := cmd.CombinedOutput()
				code := 0
				if err != nil {
					code = 1
					if ee, ok := err.(*exec.ExitError); ok {
						code = ee.ExitCode()
					}
					logs += tail(string(out), 500)
				}
				res[fmt.Sprintf("exit%d", i+1)] = code
			}
			identical := 1
			for _, f := range []string{"types.go", "messages.go", "profile.go", "types_string.go"} {
				a, e1 := os.ReadFile(filepath.Join(outs[0], f))
				b, e2 := os.ReadFile(filepath.Join(outs[1], f))
				if e1 != nil || e2 != nil || !bytes.Equal(a, b) {
					identical = 0
					res["differs"] = f
				}
			}
			res["identical"] = identical
			maj, _ := strconv.Atoi(strings.Split(j.wb, ".")[0])
			min, _ := strconv.Atoi(strings.Split(j.wb, ".")[1])
			res["wantmajor"], res["wantminor"] = maj, min
			res["versionline"], res["major"], res["minor"], res["compiles"] = 0, -1, -1, 0
			res["msgs"] = []interface{}{}
			res["types"] = []interface{}{}
			if res["exit1"] == 0 && res["exit2"] == 0 {
				if gc, gb, err := parseTypesGo(filepath.Join(outs[0], "types.go")); err == nil {
					byNorm := map[string]string{}
					for tn := range gb {
						byNorm[normName(tn)] = tn
					}
					for _, wt := range wtypes {
						tn, ok := byNorm[wt.Name]
						if !ok {
							continue
						}
						wt.Found = 1
						cs := [][]string{}
						for _, ce := range gc[tn] {
							cs = append(cs, []string{normName(ce.Name), ce.V})
						}
						wt.Obs = map[string]interface{}{"bits": gb[tn], "consts": cs}
					}
					res["types"] = wtypes
				} else {
					logs += "types.go: " + err.Error()
				}
				prof := string(mustRead(filepath.Join(outs[0], "profile.go")))
				vl := 1
				for _, f := range []string{"types.go", "messages.go", "profile.go"} {
					m := reSDKLine.FindStringSubmatch(string(mustRead(filepath.Join(outs[0], f))))
					if m == nil || m[1] != strconv.Itoa(maj) || m[2] != strconv.Itoa(min) {
						vl = 0
					}
				}
				res["versionline"] = vl
				if m := reMajor.FindStringSubmatch(prof); m != nil {
					res["major"], _ = strconv.Atoi(m[1])
				}
				if m := reMinor.FindStringSubmatch(prof); m != nil {
					res["minor"], _ = strconv.Atoi(m[1])
				}
				if err := parseGenerated(outs[0], msgs); err != nil {
					logs += "parse: " + err.Error()
				}
				res["msgs"] = msgs
				ok, blog := compileGenerated(j.dir, outs[0])
				res["compiles"] = b2i(ok)
				if !ok {
					logs += blog
				}
			}
			res["log"] = logs
			os.RemoveAll(j.dir)
			results[ji] = res
		}(ji, j)
	}
	wg.Wait()
	var tb bytes.Buffer
	nrows := 0
	for _, res := range results {
		b, _ := json.Marshal(res)
		tb.Write(b)
		tb.WriteByte('\n')
		if ms, ok := res["msgs"].([]*wbMsg); ok {
			for _, m := range ms {
				nrows += len(m.Rows)
			}
		}
	}
	mm := c.validateTraces("Trace_FitGen", "TSpec", "Post", tb.Bytes(), nil, 6)
	c.Traces += int64(len(results))
	for _, m := range mm {
		c.report(fmt.Sprintf("fitgen:%v:%v:%v", m["what"], m["workbook"], m["msg"]), fmt.Sprintf("fitgen run disagrees with FitGen.tla: %v", m), m)
	}
	c.Cov["programs"] = len(results)
	c.Cov["disagreements_checked"] = len(mm)
	ntypes, nconsts := 0, 0
	for _, res := range results {
		if ts, ok := res["types"].([]*wbType); ok {
			for _, t := range ts {
				if t.Found == 1 {
					ntypes++
					nconsts += len(t.Vals)
				}
			}
		}
	}
	c.Cov["types_checked"] = ntypes
	c.Cov["type_value_rows_checked"] = nconsts
	c.Cov["workbook_rows_checked"] = nrows
	c.Cov["evaluations"] = len(results)
	c.Cov["distinct_nontrivial"] = len(results)
	c.Cov["rule"] = "5 bundled workbooks x seeded dependency-closed selections (disabling 90% / 30% / 70% of the eligible main-field rows and half as many sub-field rows; selection 0 is the stock profile), alternately as a bare workbook with -sdk and inside a FitSDKRelease_<v>.zip, each generated twice with the real fitgen command: once into an empty directory, once over an existing stock output"
	c.sample(map[string]interface{}{"workbook": results[1]["workbook"], "input": results[1]["input"], "rows_disabled": results[1]["disabled"], "compiles": results[1]["compiles"], "identical": results[1]["identical"]})
	c.finish()
}
