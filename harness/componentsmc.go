package main

import (
	"bytes"
	"encoding/json"
	"fmt"
	"regexp"
	"strconv"
	"strings"
	"time"

	"github.com/tormoder/fit"
)

var reCScript = regexp.MustCompile(`"?CSCRIPT (<<.*>>)"?`)
var reCTok = regexp.MustCompile(`<<(\d+), (\d+), (\d+)>>`)

const compCfg = "CONSTANTS\n ByteShift = %s\n MaskZero = %s\n SharedAcc = %s\n EnhBefore = %s\n MaxDepth = %d\n MaxFiles = %d\n Emit = %s\n CheckMeets = %s\nSPECIFICATION Spec\nINVARIANTS Meets EmitScript\nCHECK_DEADLOCK FALSE\n"

// componentsMC: ComponentsImpl explored by TLC.
//  1. all switches off: Impl = Contract on every sequence (the design the Contract asks for);
//  2. each deviation switch alone: TLC must refute Meets (the recorded findings, at model level);
//  3. all switches on (the code as it is): every explored sequence is emitted.
//
// Returns the emitted token scripts.
func componentsMC(c *Ctx, depth int) [][][3]int {
	b := func(x bool) string {
		if x {
			return "TRUE"
		}
		return "FALSE"
	}
	run := func(sw [4]bool, emit, check bool) *TLCResult {
		cfg := fmt.Sprintf(compCfg, b(sw[0]), b(sw[1]), b(sw[2]), b(sw[3]), depth, 2, b(emit), b(check))
		return c.runTLC(TLCRun{Module: "MC_Components", Cfg: cfg, Workers: 8, HeapGB: 6, Timeout: 30 * time.Minute})
	}
	r := run([4]bool{}, false, true)
	if r.Exit != 0 {
		if strings.Contains(r.Out, "is violated") {
			c.report("components-model", "TLC: ComponentsImpl with all deviation switches off does not meet the component Contract (the transcription or the Contract is wrong):\n"+c.tlcTail(r), nil)
			return nil
		}
		c.die("TLC MC_Components exit %d\n%s", r.Exit, c.tlcTail(r))
	}
	c.account(r)
	c.add("components_model_states", r.Distinct)
	names := []string{"ByteShift", "MaskZero", "SharedAcc", "EnhBefore"}
	refuted := []string{}
	for i := range names {
		var sw [4]bool
		sw[i] = true
		r := run(sw, false, true)
		if !strings.Contains(r.Out, "Invariant Meets is violated") {
			c.die("MC_Components: deviation %s alone is not refuted: the model is vacuous (exit %d)\n%s", names[i], r.Exit, c.tlcTail(r))
		}
		refuted = append(refuted, names[i])
	}
	c.Cov["components_model_deviations_refuted"] = refuted
	r = run([4]bool{true, true, true, true}, true, false)
	if r.Exit != 0 {
		c.die("TLC MC_Components (emit) exit %d\n%s", r.Exit, c.tlcTail(r))
	}
	c.account(r)
	var out [][][3]int
	for _, m := range reCScript.FindAllStringSubmatch(r.Out, -1) {
		var s [][3]int
		for _, t := range reCTok.FindAllStringSubmatch(m[1], -1) {
			a, _ := strconv.Atoi(t[1])
			b, _ := strconv.Atoi(t[2])
			d, _ := strconv.Atoi(t[3])
			s = append(s, [3]int{a, b, d})
		}
		if len(s) > 0 {
			out = append(out, s)
		}
	}
	return out
}

// componentStream builds the chain of files a token script stands for.
func componentStream(toks [][3]int) []byte {
	var all []byte
	var s *Stream
	open := func() {
		s = newStream(12, false)
		s.FileId(0, 0, 4)
		s.Def(1, 0, 20, []FieldDef{{8, 3, 0x0D}}, nil)
		s.Def(2, 0, 20, []FieldDef{{18, 1, 2}}, nil)
		s.Def(3, 0, 20, []FieldDef{{28, 2, 0x84}}, nil)
		s.Def(4, 0, 20, []FieldDef{{6, 2, 0x84}}, nil)
	}
	open()
	for _, t := range toks {
		switch t[0] {
		case 0:
			all = append(all, s.Bytes()...)
			open()
		case 1:
			sp, d := t[1], t[2]
			s.Data(1, []byte{byte(sp), byte(sp>>8) | byte(d&0x0F)<<4, byte(d >> 4)})
		case 2:
			s.Data(2, []byte{byte(t[1])})
		case 3:
			s.Data(3, u16le(uint16(t[1])))
		case 4:
			s.Data(4, u16le(uint16(t[1])))
		}
	}
	return append(all, s.Bytes()...)
}

// componentsReplay: the emitted scripts through the real DecodeChained;
// Trace_Decode (Contract, with the named deviations) and Trace_Components
// (Impl, value for value).
func componentsReplay(c *Ctx, p *Profile, sch *Schema, scripts [][][3]int, id *int) (calls []*Call) {
	type outJ struct {
		Speed int `json:"speed"`
		Dist  int `json:"dist"`
		TC    int `json:"tc"`
		AP    int `json:"ap"`
		ES    int `json:"es"`
	}
	inv := func(v, invalid uint32) int {
		if v == invalid {
			return -1
		}
		return int(v)
	}
	var tb bytes.Buffer
	n := 0
	for i, sc := range scripts {
		in := componentStream(sc)
		*id++
		cl := p.runCall(*id, "chained", in, plain, CallOpts{}, true)
		cl.Note = fmt.Sprintf("TLC-generated component script %v", sc)
		calls = append(calls, cl)
		fit.VerifResetAccumulators()
		files, err := fit.DecodeChained(bytes.NewReader(in))
		if err != nil {
			continue // Trace_Decode decides about the verdict
		}
		outs := []outJ{}
		for _, f := range files {
			a, err := f.Activity()
			if err != nil {
				continue
			}
			for _, r := range a.Records {
				outs = append(outs, outJ{inv(uint32(r.Speed), 0xFFFF), inv(r.Distance, 0xFFFFFFFF), inv(r.TotalCycles, 0xFFFFFFFF), inv(r.AccumulatedPower, 0xFFFFFFFF), inv(r.EnhancedSpeed, 0xFFFFFFFF)})
			}
		}
		toks := [][]int{}
		for _, t := range sc {
			toks = append(toks, []int{t[0], t[1], t[2]})
		}
		b, _ := json.Marshal(map[string]interface{}{"id": i + 1, "toks": toks, "outs": outs})
		tb.Write(b)
		tb.WriteByte('\n')
		n++
	}
	mm := c.validateTraces("Trace_Components", "TSpec", "Post", tb.Bytes(), nil, 4)
	c.Traces += int64(n)
	c.Cov["tlc_generated_component_scripts_replayed"] = n
	drift, other := 0, 0
	var ex []string
	for _, m := range mm {
		if b, ok := m["contract"].(bool); ok && b {
			drift++ // the code gives the Contract's values: a recorded deviation is gone
		} else {
			other++ // neither: Trace_Decode reports these as violations
		}
		if len(ex) < 3 {
			ex = append(ex, fmt.Sprintf("script %v: as-implemented model %v, code %v", scripts[num(m["trace"])-1], m["expected"], m["observed"]))
		}
	}
	c.Cov["componentsimpl_conformance_drift"] = drift + other
	if drift+other > 0 {
		c.Cov["componentsimpl_conformance_drift_samples"] = ex
		fmt.Printf("DRIFT property=%s %d component scripts decode to other values than ComponentsImpl (as implemented) computes (%d of them to the Contract's values); violations, if any, are reported from the Contract comparison: %v\n", c.ID, drift+other, drift, ex)
	}
	return calls
}
