package main

import (
	"encoding/json"
	"reflect"
	"sort"
	"time"

	"github.com/tormoder/fit"
)

// ---------------------------------------------------------------------------
// Profile export: the compiled-in tables, read through the verif hook.

type PField struct {
	N int `json:"n"` // field number
	S int `json:"s"` // struct index
	B int `json:"b"` // base type index 0..16
	A int `json:"a"` // array flag
	K int `json:"k"` // kind: 0 native 1 utc 2 local 3 lat 4 lng
	L int `json:"l"` // length
	T int `json:"t"` // raw types.Fit bits
}

type PMsg struct {
	M      int      `json:"m"`
	Name   string   `json:"name"`
	NumFld int      `json:"nf"` // NumField of the struct type
	Fields []PField `json:"fields"`
}

type Profile struct {
	Msgs []PMsg `json:"msgs"`
	by   map[int]*PMsg
}

func exportProfile() *Profile {
	p := &Profile{by: map[int]*PMsg{}}
	known := fit.VerifKnownMesgNums()
	sort.Slice(known, func(i, j int) bool { return known[i] < known[j] })
	for _, m := range known {
		pm := PMsg{M: int(m), Fields: []PField{}}
		if t := fit.VerifMesgType(m); t != nil && t.Kind() == reflect.Struct {
			pm.Name = t.Name()
			pm.NumFld = t.NumField()
		}
		for _, f := range fit.VerifFields(m) {
			if f == nil {
				continue
			}
			a := 0
			if f.Array {
				a = 1
			}
			pm.Fields = append(pm.Fields, PField{N: int(f.Num), S: f.Sindex, B: int(f.Base & 0x1F), A: a, K: int(f.Kind), L: int(f.Length), T: int(f.Type)})
		}
		p.Msgs = append(p.Msgs, pm)
	}
	for i := range p.Msgs {
		p.by[p.Msgs[i].M] = &p.Msgs[i]
	}
	return p
}

func (p *Profile) field(m, n int) *PField {
	pm := p.by[m]
	if pm == nil {
		return nil
	}
	for i := range pm.Fields {
		if pm.Fields[i].N == n {
			return &pm.Fields[i]
		}
	}
	return nil
}

func (p *Profile) bySindex(m, s int) *PField {
	pm := p.by[m]
	if pm == nil {
		return nil
	}
	for i := range pm.Fields {
		if pm.Fields[i].S == s {
			return &pm.Fields[i]
		}
	}
	return nil
}

func (p *Profile) json() []byte {
	b, _ := json.Marshal(p)
	return b
}

var baseSize = [17]int{1, 1, 1, 2, 2, 4, 4, 1, 4, 8, 1, 2, 4, 1, 8, 8, 8}
var baseSigned = [17]bool{false, true, false, true, false, true, false, false, true, true, false, false, false, false, true, false, false}
var baseByte = [17]byte{0x00, 0x01, 0x02, 0x83, 0x84, 0x85, 0x86, 0x07, 0x88, 0x89, 0x0A, 0x8B, 0x8C, 0x0D, 0x8E, 0x8F, 0x90}

// invalid value of a base type as little-endian bytes
func baseInvalid(b int) []byte {
	switch b {
	case 0, 2, 13:
		return []byte{0xFF}
	case 1:
		return []byte{0x7F}
	case 3:
		return []byte{0xFF, 0x7F}
	case 4:
		return []byte{0xFF, 0xFF}
	case 5:
		return []byte{0xFF, 0xFF, 0xFF, 0x7F}
	case 6, 8:
		return []byte{0xFF, 0xFF, 0xFF, 0xFF}
	case 9, 15:
		return []byte{0xFF, 0xFF, 0xFF, 0xFF, 0xFF, 0xFF, 0xFF, 0xFF}
	case 10:
		return []byte{0}
	case 11:
		return []byte{0, 0}
	case 12:
		return []byte{0, 0, 0, 0}
	case 14:
		return []byte{0xFF, 0xFF, 0xFF, 0xFF, 0xFF, 0xFF, 0xFF, 0x7F}
	case 16:
		return []byte{0, 0, 0, 0, 0, 0, 0, 0}
	}
	return nil
}

// ---------------------------------------------------------------------------
// Container schema: "what each file type holds", derived by reflection over
// the exported container struct types - independently of the add() switches.

type Slot struct {
	Name   string `json:"name"`
	M      int    `json:"m"`
	List   int    `json:"list"`
	GoType string `json:"gotype"` // name of the member's message struct
}

type Schema struct {
	Types []SchemaType `json:"types"`
}

type SchemaType struct {
	T        int    `json:"t"`
	Name     string `json:"name"`
	Accessor string `json:"accessor"`
	Slots    []Slot `json:"slots"`
}

var fileTypeAccessors = []struct {
	t    fit.FileType
	name string
	get  func(*fit.File) (interface{}, error)
}{
	{fit.FileTypeActivity, "Activity", func(f *fit.File) (interface{}, error) { x, e := f.Activity(); return x, e }},
	{fit.FileTypeDevice, "Device", func(f *fit.File) (interface{}, error) { x, e := f.Device(); return x, e }},
	{fit.FileTypeSettings, "Settings", func(f *fit.File) (interface{}, error) { x, e := f.Settings(); return x, e }},
	{fit.FileTypeSport, "Sport", func(f *fit.File) (interface{}, error) { x, e := f.Sport(); return x, e }},
	{fit.FileTypeWorkout, "Workout", func(f *fit.File) (interface{}, error) { x, e := f.Workout(); return x, e }},
	{fit.FileTypeCourse, "Course", func(f *fit.File) (interface{}, error) { x, e := f.Course(); return x, e }},
	{fit.FileTypeSchedules, "Schedules", func(f *fit.File) (interface{}, error) { x, e := f.Schedules(); return x, e }},
	{fit.FileTypeWeight, "Weight", func(f *fit.File) (interface{}, error) { x, e := f.Weight(); return x, e }},
	{fit.FileTypeTotals, "Totals", func(f *fit.File) (interface{}, error) { x, e := f.Totals(); return x, e }},
	{fit.FileTypeGoals, "Goals", func(f *fit.File) (interface{}, error) { x, e := f.Goals(); return x, e }},
	{fit.FileTypeBloodPressure, "BloodPressure", func(f *fit.File) (interface{}, error) { x, e := f.BloodPressure(); return x, e }},
	{fit.FileTypeMonitoringA, "MonitoringA", func(f *fit.File) (interface{}, error) { x, e := f.MonitoringA(); return x, e }},
	{fit.FileTypeActivitySummary, "ActivitySummary", func(f *fit.File) (interface{}, error) { x, e := f.ActivitySummary(); return x, e }},
	{fit.FileTypeMonitoringDaily, "MonitoringDaily", func(f *fit.File) (interface{}, error) { x, e := f.MonitoringDaily(); return x, e }},
	{fit.FileTypeMonitoringB, "MonitoringB", func(f *fit.File) (interface{}, error) { x, e := f.MonitoringB(); return x, e }},
	{fit.FileTypeSegment, "Segment", func(f *fit.File) (interface{}, error) { x, e := f.Segment(); return x, e }},
	{fit.FileTypeSegmentList, "SegmentList", func(f *fit.File) (interface{}, error) { x, e := f.SegmentList(); return x, e }},
}

// container returns the typed container of f (by its accessor), or nil.
func container(f *fit.File) (interface{}, string) {
	for _, a := range fileTypeAccessors {
		if a.t == f.Type() {
			x, err := a.get(f)
			if err != nil || x == nil || reflect.ValueOf(x).IsNil() {
				return nil, a.name
			}
			return x, a.name
		}
	}
	return nil, ""
}

func exportSchema() *Schema {
	s := &Schema{}
	for _, a := range fileTypeAccessors {
		f, err := fit.NewFile(a.t, fit.NewHeader(fit.V10, false))
		if err != nil {
			continue
		}
		x, _ := a.get(f)
		ct := reflect.TypeOf(x).Elem()
		st := SchemaType{T: int(a.t), Name: ct.Name(), Accessor: a.name, Slots: []Slot{}}
		for i := 0; i < ct.NumField(); i++ {
			sf := ct.Field(i)
			ft := sf.Type
			list := 0
			if ft.Kind() == reflect.Slice {
				list = 1
				ft = ft.Elem()
			}
			if ft.Kind() == reflect.Ptr {
				ft = ft.Elem()
			}
			m := fit.VerifGlobalMesgNum(ft)
			st.Slots = append(st.Slots, Slot{Name: sf.Name, M: int(m), List: list, GoType: ft.Name()})
		}
		s.Types = append(s.Types, st)
	}
	return s
}

func (s *Schema) json() []byte {
	b, _ := json.Marshal(s)
	return b
}

var fitEpoch = time.Date(1989, time.December, 31, 0, 0, 0, 0, time.UTC)

func newFileErr(t int) error {
	_, err := fit.NewFile(fit.FileType(t), fit.NewHeader(fit.V10, false))
	return err
}
