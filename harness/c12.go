package main

import (
	"fmt"
	"math/rand"
	"path/filepath"
	"strings"
)

// c12Stream builds timestamp-centred streams: explicit timestamps with
// boundary values, compressed-timestamp runs over all 32 offsets with
// rollovers, local timestamps with and without a reference.
func c12Stream(rng *rand.Rand, flavour int) *Stream {
	arch := byte(rng.Intn(2))
	s := newStream(12+2*rng.Intn(2), rng.Intn(2) == 0)
	ts := func(v uint32) []byte { return wire(u32le(v), arch) }
	bases := []uint32{0x10000000, 0x10000001, 0x3B9ACA00, 0x3FFFFFE0, 0x3FFFFFFF, 0x7FFFFFF0, 0xFFFFFFD0, 0xFFFFFFFE, 0x0FFFFFFF, 0x10000020, 1, 31, 32, 0x2AAAAAAA}
	now := bases[rng.Intn(len(bases))]
	if rng.Intn(3) == 0 {
		now = 0x30000000 + uint32(rng.Intn(0x20000000))
	}
	switch flavour {
	case 0: // activity file: records / events with compressed headers
		s.FileId(rng.Intn(16), arch, 4)
		third := rng.Intn(3)
		defineAll := func() {
			s.Def(0, arch, 20, []FieldDef{{253, 4, 0x86}, {3, 1, 2}}, nil) // timestamp, heart_rate
			s.Def(1, arch, 20, []FieldDef{{3, 1, 2}}, nil)                 // heart_rate only
			switch third {
			case 0:
				s.Def(2, arch, 21, []FieldDef{{0, 1, 0}, {1, 1, 0}}, nil) // event: timestamp field not in the definition
			case 1:
				s.Def(2, arch, 49, []FieldDef{{0, 1, 2}, {1, 1, 2}}, nil) // file_creator: the message has no timestamp field
			default:
				s.Def(2, arch, 0xFF02, []FieldDef{{0, 1, 2}, {1, 1, 2}}, nil) // unknown message
			}
			s.Def(3, arch, 21, []FieldDef{{253, 4, 0x86}, {0, 1, 0}}, nil)  // event with explicit timestamp
			s.Def(4, arch, 0xFF01, []FieldDef{{253, 4, 0x86}}, nil)         // unknown message with a timestamp field
			s.Def(5, arch, 49, []FieldDef{{0, 2, 0x84}}, nil)               // file_creator: no timestamp field
			s.Def(6, arch, 132, []FieldDef{{253, 4, 0x86}, {1, 1, 2}}, nil) // hr: timestamp, time256
		}
		defineAll()
		n := 20 + rng.Intn(60)
		if rng.Intn(4) == 0 {
			n = 300
		}
		off := rng.Intn(32)
		for i := 0; i < n; i++ {
			if i > 0 && i%17 == 0 && rng.Intn(2) == 0 {
				// the device switches byte order mid-file and sends the same definitions again
				arch ^= 1
				defineAll()
			}
			switch x := rng.Intn(20); {
			case x < 2:
				now += uint32(rng.Intn(100))
				v := now
				if rng.Intn(12) == 0 {
					v = 0xFFFFFFFF
				}
				s.Data(0, append(ts(v), byte(60+rng.Intn(100))))
			case x == 2:
				now += uint32(rng.Intn(100))
				s.Data(3, append(ts(now), byte(rng.Intn(40))))
			case x == 3 && rng.Intn(6) == 0:
				s.Data(4, ts(now+1000)) // unknown message: reference becomes unpinned in the Contract
			case x == 4:
				s.Compressed(1, off, []byte{byte(rng.Intn(200))}) // same offset again
			case x == 5:
				s.Data(5, wire(u16le(uint16(rng.Intn(1000))), arch))
			case x == 6:
				// messages other than record with valid and (one in three) invalid timestamps: invalid stays invalid
				v := now
				if rng.Intn(3) == 0 {
					v = 0xFFFFFFFF
				}
				s.Data(6, append(ts(v), byte(rng.Intn(250))))
			default:
				switch rng.Intn(4) {
				case 0:
					off = (off + 1) % 32
				case 1:
					off = (off + 1 + rng.Intn(5)) % 32
				case 2:
					off = rng.Intn(32)
				case 3:
					off = (off + 31) % 32 // almost a full rollover
				}
				l := 1 + rng.Intn(2)
				if l == 1 {
					s.Compressed(1, off, []byte{byte(rng.Intn(200))})
				} else {
					s.Compressed(2, off, []byte{byte(rng.Intn(40)), byte(rng.Intn(5))})
				}
			}
		}
	case 2: // goals file: two UTC times per message, valid, invalid (open-ended goal) or not sent at all
		s.FileId(0, arch, 11)
		s.Def(0, arch, 15, []FieldDef{{2, 4, 0x86}, {3, 4, 0x86}, {4, 1, 0}}, nil) // goal: start_date, end_date, type
		s.Def(1, arch, 15, []FieldDef{{2, 4, 0x86}, {4, 1, 0}}, nil)               // goal without end_date
		s.Def(2, arch, 15, []FieldDef{{3, 4, 0x86}, {4, 1, 0}}, nil)               // goal without start_date
		for i := 0; i < 8+rng.Intn(8); i++ {
			now += uint32(rng.Intn(100000))
			end := now + uint32(rng.Intn(1000000))
			switch rng.Intn(5) {
			case 0:
				end = 0xFFFFFFFF
			case 1:
				s.Data(1, append(ts(now), byte(rng.Intn(6))))
				continue
			case 2:
				s.Data(2, append(ts(end), byte(rng.Intn(6))))
				continue
			}
			s.Data(0, append(append(ts(now), ts(end)...), byte(rng.Intn(6))))
		}
	default: // schedules file: local timestamps in a list slot, references from record messages
		s.FileId(0, arch, 7)
		s.Def(0, arch, 20, []FieldDef{{253, 4, 0x86}}, nil)             // record: sets the reference (not held by this file type)
		s.Def(1, arch, 28, []FieldDef{{6, 4, 0x86}, {4, 1, 0}}, nil)    // schedule: scheduled_time (local), completed
		s.Def(2, arch, 28, []FieldDef{{3, 4, 0x86}, {6, 4, 0x86}}, nil) // schedule: time_created (utc), scheduled_time
		s.Def(3, arch, 20, []FieldDef{{3, 1, 2}}, nil)                  // record for compressed headers
		n := 10 + rng.Intn(40)
		for i := 0; i < n; i++ {
			switch rng.Intn(6) {
			case 0:
				if rng.Intn(3) > 0 || i > 0 {
					now += uint32(rng.Intn(5000))
					s.Data(0, ts(now))
				}
			case 1:
				s.Compressed(3, rng.Intn(32), []byte{byte(rng.Intn(200))})
			case 2:
				lv := now + uint32(rng.Intn(2*86400)) - 86400
				if rng.Intn(10) == 0 {
					lv = []uint32{0, 0xFFFFFFFF, 1, 0x0FFFFFFF}[rng.Intn(4)]
				}
				s.Data(2, append(ts(now-uint32(rng.Intn(100000))), ts(lv)...))
			default:
				lv := now + uint32(rng.Intn(2*86400)) - 86400
				switch rng.Intn(10) {
				case 0:
					lv = []uint32{0, 0xFFFFFFFF, 1, 0x0FFFFFFF}[rng.Intn(4)]
				case 1, 2:
					lv = now // zone offset exactly 0
				case 3:
					lv = now + 3600*uint32(rng.Intn(12))
				}
				s.Data(1, append(ts(lv), byte(rng.Intn(2))))
			}
		}
	}
	return s
}

// C12: timestamps follow the FIT time rules, including compressed headers.
func runC12(c *Ctx) {
	p := exportProfile()
	sch := exportSchema()
	c.Assume = []string{
		"Contract: Timestamps section of FitRef (least t >= reference congruent to the 5-bit offset; local time = reference instant in a zone of offset local - reference; offset 0 without reference)",
		"left unconstrained, as DESIGN.md C12 says: a compressed record before any reference; references below 0x10000000 for local times; anything after a local time that arrived without reference, or after an unknown message carrying field 253, until the next explicit timestamp",
	}
	// Impl (masked int32 arithmetic with lastTimeOffset) vs Contract (least
	// t >= reference congruent to the offset), in lockstep, by TLC
	for _, mod := range []int{32, 16} {
		cfg := fmt.Sprintf("CONSTANTS\n Explicit <- MC_Explicit\n MaxOps = %d\n ImplMod = %d\nSPECIFICATION Spec\nINVARIANTS SameReference LastIsLowBits\nPROPERTY AdvanceBelow32\nCHECK_DEADLOCK FALSE\n", c.pick(4, 5), mod)
		r := c.runTLC(TLCRun{Module: "MC_TimestampImpl", Cfg: cfg, Workers: 8, HeapGB: 4})
		violated := strings.Contains(r.Out, "is violated")
		if mod == 32 {
			if r.Exit != 0 {
				if violated {
					c.report("timestamp-model", "TLC: the decoder's compressed-timestamp arithmetic (TimestampImpl) departs from the FIT rule:\n"+c.tlcTail(r), nil)
				} else {
					c.die("TLC MC_TimestampImpl exit %d\n%s", r.Exit, c.tlcTail(r))
				}
			}
			c.account(r)
			c.add("timestamp_model_states", r.Distinct)
		} else if !violated {
			c.die("TimestampImpl with a 4-bit mask does not violate SameReference: the model is vacuous\n%s", c.tlcTail(r))
		} else {
			c.Cov["model_detects_4bit_mask"] = true
		}
	}
	// unbounded: the same arithmetic over the integers; Apalache discharges the
	// inductive invariant (Init => IndInv, IndInv /\ Next => IndInv') and the
	// action invariant "a compressed step lands on the least t >= reference
	// congruent to the offset" for all integers
	obl := [][3]string{{"Init", "IndInv", "0"}, {"IndInit", "IndInv", "1"}, {"IndInit", "StepIsLeast", "1"}}
	discharged := 0
	for _, o := range obl {
		n := 0
		if o[2] == "1" {
			n = 1
		}
		res, out := c.runApalache("TimestampInt", o[0], o[1], n)
		switch res {
		case "NoError":
			discharged++
		case "Error":
			c.report("timestamp-inductive", "Apalache: "+o[1]+" is not inductive for the compressed-timestamp arithmetic (TimestampInt):\n"+tail(out, 1500), nil)
		default:
			c.die("apalache-mc failed on TimestampInt (%s/%s):\n%s", o[0], o[1], tail(out, 1500))
		}
	}
	c.Cov["apalache_obligations"] = len(obl)
	c.Cov["apalache_discharged"] = discharged
	// which fields are date_time and which local_date_time is taken from the SDK
	// workbook, not from the table under test (the Contract reads the kind from the table)
	if sdk, err := readWorkbook(filepath.Join(repoDir, "cmd/fitgen/internal/profile/testdata/21.40.xlsx")); err == nil {
		nk := 0
		for _, row := range sdk {
			if row.K == 0 {
				continue
			}
			if pf := p.field(row.M, row.N); pf != nil {
				nk++
				if pf.K != row.K {
					c.report(fmt.Sprintf("time-kind:m%d.f%d", row.M, row.N), fmt.Sprintf("message %d field %d (%s) is %s in the SDK profile but the library decodes it as %s", row.M, row.N, row.Name,
						[]string{"", "date_time", "local_date_time"}[row.K], map[int]string{0: "a plain number", 1: "date_time", 2: "local_date_time", 3: "a latitude", 4: "a longitude"}[pf.K]), nil)
				}
			}
		}
		c.Cov["time_fields_checked_against_sdk_workbook"] = nk
	}
	rng := newRng(c.Seed)
	var calls []*Call
	id := 0
	n := c.pick(300, 4000)
	for i := 0; i < n; i++ {
		id++
		fl := []int{0, 1, 0, 1, 2}[i%5]
		cl := p.runCall(id, "decode", c12Stream(rng, fl).Bytes(), plain, CallOpts{}, true)
		cl.Note = []string{"activity/compressed", "schedules/local", "goals/utc pairs"}[fl]
		calls = append(calls, cl)
	}
	// chains: the reference does not survive into the next file (its first
	// compressed records and local times have no reference yet)
	for i := 0; i < c.pick(60, 800); i++ {
		a, b := c12Stream(rng, rng.Intn(2)).Bytes(), c12Stream(rng, rng.Intn(2)).Bytes()
		id++
		cl := p.runCall(id, "chained", append(append([]byte{}, a...), b...), plain, CallOpts{}, true)
		cl.Note = "two timestamp streams chained"
		calls = append(calls, cl)
	}
	calls = append(calls, corpusCalls(p, c, &id, c.pick(60000, 1<<30), CallOpts{})...)
	mm := c.validateCalls(p, sch, calls, 14)
	c.reportFamily(p, mm, nil)
	c.verdictStats(calls)
	c.Cov["evaluations"] = len(calls)
	c.Cov["distinct_nontrivial"] = countDistinctInputs(calls)
	c.Cov["rule"] = "timestamp-centred streams (explicit / compressed / local, boundary references, all 32 offsets, rollovers, long runs, both byte orders) + corpus; every time field of every produced message compared with FitRef"
	c.sample(map[string]interface{}{"kind": "activity/compressed stream (first 120 bytes)", "bytes": toInts(calls[0].raw[:min(120, len(calls[0].raw))])})
	c.finish()
}
