package main

import "fmt"

// C03: messages are routed, in order, to the typed container of the file's type.
func runC03(c *Ctx) {
	p := exportProfile()
	sch := exportSchema()
	c.Assume = []string{
		"what a file type holds (FitProfile!RouteTab) is derived by reflection from the exported container struct types, not from the add() switches under test",
		"Contract: FitRef!Deliver (list slots append in stream order, single slots keep the last, other messages change nothing; the type of the first file_id selects the container)",
	}
	rng := newRng(c.Seed)
	var calls []*Call
	id := 0
	// 1. all 256 file-type values
	for t := 0; t < 256; t++ {
		s := newStream(12, false)
		s.FileId(0, byte(t%2), byte(t))
		s.Def(1, 0, 20, []FieldDef{{3, 1, 2}}, nil)
		s.Data(1, []byte{77})
		id++
		cl := p.runCall(id, "decode", s.Bytes(), plain, CallOpts{}, true)
		cl.Note = fmt.Sprintf("file type %d", t)
		calls = append(calls, cl)
		// NewFile must agree with Decode on which types exist
		nferr := newFileErr(t)
		if (nferr != nil) != (cl.Ret.Err == 1) {
			c.report("newfile-vs-decode", fmt.Sprintf("NewFile(%d) error=%v but Decode error=%v", t, nferr, cl.Ret.Err == 1), cl)
		}
	}
	// 1b. a first file_id that does not carry the type field at all (or carries
	// it as invalid): there is no file type, so no container - never an
	// assumed default
	for k := 0; k < 6; k++ {
		arch := byte(k % 2)
		s := newStream(12, false)
		switch k / 2 {
		case 0:
			s.Def(0, arch, 0, []FieldDef{{1, 2, 0x84}}, nil) // manufacturer only
			s.Data(0, wire(u16le(1), arch))
		case 1:
			s.Def(0, arch, 0, []FieldDef{{1, 2, 0x84}, {4, 4, 0x86}}, nil)
			s.Data(0, append(wire(u16le(1), arch), wire(u32le(0x3B9ACA00), arch)...))
		default:
			s.Def(0, arch, 0, []FieldDef{{0, 1, 0}, {1, 2, 0x84}}, nil)
			s.Data(0, append([]byte{0xFF}, wire(u16le(1), arch)...))
		}
		s.Def(1, arch, 20, []FieldDef{{3, 1, 2}}, nil)
		s.Data(1, []byte{77})
		id++
		cl := p.runCall(id, "decode", s.Bytes(), plain, CallOpts{}, true)
		cl.Note = fmt.Sprintf("first file_id without a (valid) type field, variant %d", k)
		calls = append(calls, cl)
		if cl.Ret.Err == 0 {
			c.report("no-file-type-accepted", "Decode accepts a file whose first file_id carries no file type", cl)
		}
	}
	// 2. every (file type, message type) arm: each known message twice plus
	// unknown ones, in seeded interleavings
	rounds := c.pick(6, 16)
	for _, st := range sch.Types {
		for r := 0; r < rounds; r++ {
			arch := byte(rng.Intn(2))
			s := newStream(12+2*rng.Intn(2), true)
			s.FileId(rng.Intn(16), arch, byte(st.T))
			type item struct{ m, k int }
			var items []item
			for _, pm := range p.Msgs {
				if pm.M == 0 && r%2 == 0 {
					continue // a second file_id only in odd rounds
				}
				for k := 0; k < 2+rng.Intn(2); k++ {
					items = append(items, item{pm.M, k})
				}
			}
			for k := 0; k < 5; k++ {
				items = append(items, item{0xFF00 + k, k})
			}
			rng.Shuffle(len(items), func(i, j int) { items[i], items[j] = items[j], items[i] })
			g := &generator{rng: rng, p: p, sch: sch, k: defaultKnobs(), now: 0x36000000}
			g.k.noTimeNoise = true
			g.k.pNarrow = 0
			g.k.pTimeBack = 0.4 // "the last message" is not "the newest message"
			// a time reference, so that compressed-timestamp headers are meaningful
			s.Def(0, arch, 20, []FieldDef{{253, 4, 0x86}}, nil)
			s.Data(0, wire(u32le(0x36000000), arch))
			for _, it := range items {
				l := 1 + rng.Intn(15)
				pm := p.by[it.m]
				if pm == nil {
					s.Def(l, arch, uint16(it.m), []FieldDef{{1, 1, 2}}, nil)
					s.Data(l, []byte{byte(it.k)})
					continue
				}
				// the fields a container might (wrongly) look at: most messages carry
				// their timestamp, many their message_index (small, repeating, not
				// ascending); then a few more fields, or all of them
				var fs []FieldDef
				have := map[int]bool{}
				if tf := p.field(it.m, 253); tf != nil && rng.Intn(4) != 0 {
					fs = append(fs, g.fieldDefFor(tf))
					have[253] = true
				}
				for fi := range pm.Fields {
					// any other time a container might sort or filter by (course_point.timestamp is field 1)
					if f := &pm.Fields[fi]; f.K == 1 && !have[f.N] && rng.Intn(4) != 0 {
						fs = append(fs, g.fieldDefFor(f))
						have[f.N] = true
					}
				}
				if mf := p.field(it.m, 254); mf != nil && rng.Intn(2) == 0 {
					fs = append(fs, g.fieldDefFor(mf))
					have[254] = true
				}
				more := 1 + rng.Intn(4)
				if rng.Intn(5) < 2 {
					more = len(pm.Fields) // all of them: whatever field a container might act upon is there
				}
				for _, fi := range rng.Perm(len(pm.Fields)) {
					if more > 0 && !have[pm.Fields[fi].N] {
						fs = append(fs, g.fieldDefFor(&pm.Fields[fi]))
						more--
					}
				}
				fidKind := rng.Intn(4)
				if it.m == 0 {
					// a later file_id (another type, the same type, an invalid
					// type, or no type field at all) must not re-route anything
					fs = []FieldDef{{0, 1, 0}}
					if fidKind == 3 {
						fs = []FieldDef{{1, 2, 0x84}}
					}
				}
				s.Def(l, arch, uint16(it.m), fs, nil)
				if it.m == 0 {
					switch fidKind {
					case 0:
						s.Data(l, []byte{byte(sch.Types[rng.Intn(len(sch.Types))].T)})
					case 1:
						s.Data(l, []byte{byte(st.T)})
					case 2:
						s.Data(l, []byte{0xFF})
					default:
						s.Data(l, wire(u16le(uint16(1+rng.Intn(200))), arch))
					}
				} else {
					// some records arrive behind a compressed-timestamp header
					if rng.Intn(3) == 0 {
						lc := 1 + rng.Intn(3)
						s.Def(lc, arch, uint16(it.m), fs, nil)
						s.Compressed(lc, rng.Intn(32), g.payloadFor(s.defs[lc]))
					} else {
						s.Data(l, g.payloadFor(s.defs[l]))
					}
				}
			}
			id++
			cl := p.runCall(id, "decode", s.Bytes(), plain, CallOpts{UM: 1}, true)
			cl.Note = fmt.Sprintf("%s round %d", st.Name, r)
			calls = append(calls, cl)
		}
	}
	// 2b. per file type, every list slot gets four messages whose message_index
	// repeats and goes down (1, 0, 1, 0) and whose times go down: a container
	// appends, it does not file messages under an index or sort them
	for _, st := range sch.Types {
		for arch := byte(0); arch < 2; arch++ {
			s := newStream(12, false)
			s.FileId(0, arch, byte(st.T))
			now := uint32(0x37500000)
			used := false
			for si, sl := range st.Slots {
				pm := p.by[sl.M]
				if sl.List != 1 || pm == nil || len(pm.Fields) == 0 {
					continue
				}
				var fs []FieldDef
				hasIdx, nTimes := false, 0
				if f := p.field(sl.M, 254); f != nil {
					fs = append(fs, FieldDef{254, 2, 0x84})
					hasIdx = true
				}
				for fi := range pm.Fields {
					if f := &pm.Fields[fi]; f.K == 1 && nTimes < 2 {
						fs = append(fs, FieldDef{byte(f.N), 4, 0x86})
						nTimes++
					}
				}
				// one plain field to tell the four messages apart
				for fi := range pm.Fields {
					if f := &pm.Fields[fi]; f.K == 0 && f.A == 0 && f.B == 2 && f.N != 254 {
						fs = append(fs, FieldDef{byte(f.N), 1, 2})
						break
					}
				}
				if len(fs) == 0 {
					continue
				}
				l := 1 + si%15
				s.Def(l, arch, uint16(sl.M), fs, nil)
				for k := 0; k < 4; k++ {
					var pl []byte
					for _, f := range fs {
						switch {
						case f.Num == 254 && hasIdx && f.Size == 2:
							pl = append(pl, wire(u16le(uint16(1-k%2)), arch)...)
						case f.Size == 4:
							now -= uint32(50 + rng.Intn(50))
							pl = append(pl, wire(u32le(now), arch)...)
						default:
							pl = append(pl, byte(10+k))
						}
					}
					s.Data(l, pl)
					if k == 3 {
						s.Data(l, pl) // the same message again, byte for byte: it is held twice
					}
				}
				used = true
			}
			if !used {
				continue
			}
			id++
			cl := p.runCall(id, "decode", s.Bytes(), plain, CallOpts{UM: 1}, true)
			cl.Note = fmt.Sprintf("%s: repeating message_index, decreasing times", st.Name)
			calls = append(calls, cl)
		}
	}
	// 2c. one local type re-defined for one message after the other with the very
	// same field layout (message_index only): each record belongs to the message
	// its latest definition names
	for _, st := range sch.Types {
		s := newStream(12, false)
		arch := byte(st.T % 2)
		s.FileId(0, arch, byte(st.T))
		n := 0
		for _, sl := range st.Slots {
			if sl.List != 1 || p.field(sl.M, 254) == nil {
				continue
			}
			s.Def(1, arch, uint16(sl.M), []FieldDef{{254, 2, 0x84}}, nil)
			for k := 0; k <= n%3; k++ {
				s.Data(1, wire(u16le(uint16(n+k)), arch))
			}
			n++
		}
		if n < 2 {
			continue
		}
		id++
		cl := p.runCall(id, "decode", s.Bytes(), plain, CallOpts{UM: 1}, true)
		cl.Note = fmt.Sprintf("%s: one local type, %d messages with the same layout", st.Name, n)
		calls = append(calls, cl)
	}
	// 2d. a file that ends right after its file_id: the file type is judged all the same
	for t := 0; t < 256; t++ {
		s := newStream(12+2*(t%2), t%2 == 1)
		s.FileId(t%16, byte(t%2), byte(t))
		id++
		cl := p.runCall(id, "decode", s.Bytes(), plain, CallOpts{}, true)
		cl.Note = fmt.Sprintf("file type %d, nothing after the file_id", t)
		calls = append(calls, cl)
		if nferr := newFileErr(t); (nferr != nil) != (cl.Ret.Err == 1) {
			c.report("newfile-vs-decode", fmt.Sprintf("NewFile(%d) error=%v but Decode of a file with only a file_id error=%v", t, nferr, cl.Ret.Err == 1), cl)
		}
	}
	// 3. device files
	calls = append(calls, corpusCalls(p, c, &id, c.pick(60000, 1<<30), CallOpts{})...)
	mm := c.validateCalls(p, sch, calls, 14)
	c.reportFamily(p, mm, nil)
	c.verdictStats(calls)
	pairs := 0
	for _, st := range sch.Types {
		pairs += len(p.Msgs)
		_ = st
	}
	c.Cov["file_type_values"] = 256
	c.Cov["filetype_message_pairs_exercised"] = pairs
	c.Cov["evaluations"] = len(calls)
	c.Cov["distinct_nontrivial"] = countDistinctInputs(calls) + 256
	c.Cov["rule"] = "all 256 file-type values (Decode and NewFile); per file type a stream carrying every known message type 2-3 times plus unknown ones, in seeded interleavings (odd rounds also a second file_id of another type); device files. Slot contents, order, counts, accessors compared with FitRef"
	c.sample(map[string]interface{}{"kind": "routing stream", "note": calls[256].Note, "slots": slotCounts(calls[256])})
	c.finish()
}

func slotCounts(cl *Call) map[string]int {
	out := map[string]int{}
	if len(cl.Ret.Files) > 0 {
		for k, v := range cl.Ret.Files[0].Slots {
			out[k] = len(v)
		}
	}
	return out
}
