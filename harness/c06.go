package main

import (
	"fmt"
)

// notOnlyComponentOrOptions: a mismatch that is not exclusively about
// component destinations (C18) or the unknown-item lists (C16).
func roundTripRelevant(p *Profile, m Mismatch) bool {
	// the accumulated destinations are subject to the recorded findings of
	// C18 (named deviations): not reported again here
	if kfs, ok := m.Rec["kf"].([]interface{}); ok && len(kfs) > 0 {
		return false
	}
	ps := p.props(m)
	for k := range ps {
		if k != "C16" {
			return true
		}
	}
	return false
}

// C06: Encode then Decode returns the values that were put in.
func runC06(c *Ctx) {
	p := exportProfile()
	sch := exportSchema()
	c.Assume = []string{
		"MsgEq(F, Decode(Encode(F))) is decided as the composition of two TLC validations that share the wire bytes: F against the wire (encode event: values equal up to invalid padding / profile lengths / wall clock) and the wire against the decoded File (decode event: exact Contract values, component-derived fields per the component rule)",
		"domain: generator draws valid UTF-8 strings of at most profile length - 1 bytes, arrays of at most the profile length, whole-second times with the (local) reading inside the 32-bit range, valid coordinates; string fields of profile length 1 and string arrays are left unset",
		"NewFile leaves File.FileId with Go zero values (time_created = year 1, outside the range); the generator starts from NewFileIdMsg()",
	}
	id := 0
	enc, outs := encodeEvents(c, p, sch, &id, c.pick(5, 30), true, false)
	var calls []*Call
	nfail := 0
	for i, cl := range enc {
		if cl.Ret.Err == 1 || cl.Ret.Panic == 1 {
			nfail++
			c.report(encodeFailureSig(cl), fmt.Sprintf("Encode fails on an in-domain File (%s): %s%s", cl.Note, cl.Ret.ErrText, cl.Ret.PanicMsg), cl)
			continue
		}
		calls = append(calls, cl)
		for _, api := range []string{"decode", "integrity"} {
			id++
			d := p.runCall(id, api, outs[i], plain, CallOpts{}, true)
			d.Note = "decode of the output of: " + cl.Note
			calls = append(calls, d)
			if d.Ret.Err == 1 {
				c.report("roundtrip-decode-fails", fmt.Sprintf("%s of Encode's output fails (%s): %s", api, cl.Note, d.Ret.ErrText), map[string]interface{}{"encode": cl, "decode": d})
			}
		}
	}
	mm := c.validateCalls(p, sch, calls, 14)
	c.reportFamily(p, mm, func(m Mismatch) bool { return roundTripRelevant(p, m) })
	c.verdictStats(calls)
	c.Cov["files_encoded"] = len(enc)
	c.Cov["encode_failures"] = nfail
	c.Cov["evaluations"] = len(calls)
	c.Cov["distinct_nontrivial"] = countDistinctInputs(calls)
	c.Cov["rule"] = "in-domain Files over the 17 file types: every hosted message type with every field alone in both byte orders, plus random subsets at three densities; each File is encoded, the output decoded and integrity-checked; encode and decode events validated by TLC"
	c.sample(map[string]interface{}{"kind": "round trip", "note": calls[0].Note, "file_before": calls[0].Ret.Files[0].Slots, "bytes": calls[0].Input[:min(80, len(calls[0].Input))]})
	c.finish()
}
