package main

import (
	"bytes"
	"encoding/json"
	"fmt"
	"math"
	"sort"
	"strconv"
	"sync"

	"github.com/tormoder/fit"
)

type i32 int64

// int32 values travel as 4 little-endian bytes (JSON numbers near -2^31 are not safe in TLC's Json module)
func (v i32) MarshalJSON() ([]byte, error) {
	return json.Marshal(toInts(leBytes(uint64(int64(v)), 4)))
}

type coordEvent struct {
	Kind           string `json:"kind"`
	S              i32    `json:"s"`
	Invalid        int    `json:"invalid"`
	Semis          i32    `json:"semis"`
	DegBits        []int  `json:"degbits"`
	RT             i32    `json:"rt"`
	RTInvalid      int    `json:"rtinvalid"`
	Printed        int64  `json:"printed"`
	PrintedInvalid int    `json:"printedinvalid"`
}

type timeEvent struct {
	Kind   string `json:"kind"`
	U      []int  `json:"u"`
	Unix   []int  `json:"unix"`
	Back   []int  `json:"back"`
	IsBase int    `json:"isbase"`
	Nanos  int    `json:"nanos"`
}

func b2i(b bool) int {
	if b {
		return 1
	}
	return 0
}

// observe one coordinate through the public API
func observeCoord(kind string, s int32) coordEvent {
	e := coordEvent{Kind: kind, S: i32(s)}
	var deg float64
	var str string
	if kind == "lat" {
		l := fit.NewLatitude(s)
		e.Invalid, e.Semis, deg, str = b2i(l.Invalid()), i32(l.Semicircles()), l.Degrees(), l.String()
		r := fit.NewLatitudeDegrees(deg)
		e.RT, e.RTInvalid = i32(r.Semicircles()), b2i(r.Invalid())
	} else {
		l := fit.NewLongitude(s)
		e.Invalid, e.Semis, deg, str = b2i(l.Invalid()), i32(l.Semicircles()), l.Degrees(), l.String()
		r := fit.NewLongitudeDegrees(deg)
		e.RT, e.RTInvalid = i32(r.Semicircles()), b2i(r.Invalid())
	}
	e.DegBits = toInts(leBytes(math.Float64bits(deg), 8))
	if p, ok := parseScaled5(str); ok {
		e.Printed = p
	} else if _, err := strconv.ParseFloat(str, 64); err == nil {
		e.PrintedInvalid = 2 // a number, but not a plain decimal with at most 5 decimals
	} else {
		e.PrintedInvalid = 1
	}
	return e
}

// parseScaled5 returns the printed decimal times 10^5, exactly.
func parseScaled5(s string) (int64, bool) {
	neg := false
	i := 0
	if i < len(s) && (s[i] == '-' || s[i] == '+') {
		neg = s[i] == '-'
		i++
	}
	var ip, fp int64
	nd, nf := 0, 0
	for ; i < len(s) && s[i] >= '0' && s[i] <= '9'; i++ {
		ip = ip*10 + int64(s[i]-'0')
		nd++
	}
	if i < len(s) && s[i] == '.' {
		i++
		for ; i < len(s) && s[i] >= '0' && s[i] <= '9'; i++ {
			fp = fp*10 + int64(s[i]-'0')
			nf++
		}
	}
	if i != len(s) || nd == 0 || nd > 4 || nf > 5 {
		return 0, false
	}
	for ; nf < 5; nf++ {
		fp *= 10
	}
	v := ip*100000 + fp
	if neg {
		v = -v
	}
	return v, true
}

// clauseOK evaluates, natively and with integer arithmetic only, the clauses
// that TLC validates on the sample (used for the full-domain sweep).
func clauseOK(e coordEvent) (bad string) {
	s := int64(e.S)
	lat := e.Kind == "lat"
	class := "valid"
	switch {
	case s == math.MaxInt32:
		class = "invalid"
	case lat && (s == 1<<30 || s == -(1<<30)):
		class = "either"
	case lat && (s < -(1<<30) || s > 1<<30):
		class = "invalid"
	}
	if class != "either" && (class == "invalid") != (e.Invalid == 1) {
		return "Invalid()"
	}
	if e.Invalid == 1 {
		if e.Semis != math.MaxInt32 {
			return "Semicircles()"
		}
		if !isNaNBits(e.DegBits) {
			return "Degrees() NaN iff invalid"
		}
		if e.PrintedInvalid != 1 {
			return "printed form of an invalid coordinate"
		}
		return ""
	}
	if int64(e.Semis) != s {
		return "Semicircles()"
	}
	var bits uint64
	for i := 7; i >= 0; i-- {
		bits = bits<<8 | uint64(e.DegBits[i])
	}
	d := math.Float64frombits(bits)
	if math.IsNaN(d) {
		return "Degrees() NaN iff invalid"
	}
	// exact: d * 2^29 == s * 45
	if d*536870912 != float64(s*45) {
		return "Degrees() = s * 180 / 2^31"
	}
	inside := class == "valid"
	if !lat {
		inside = s != math.MaxInt32 && s != math.MinInt32
	}
	if inside && (e.RTInvalid == 1 || int64(e.RT)-s > 1 || s-int64(e.RT) > 1) {
		return "round trip through degrees"
	}
	if e.PrintedInvalid != 0 {
		return "printed form"
	}
	diff := e.Printed<<29 - s*45*100000
	if diff < 0 {
		diff = -diff
	}
	if diff > 2<<29 {
		return "printed form"
	}
	return ""
}

func isNaNBits(b []int) bool {
	var bits uint64
	for i := 7; i >= 0; i-- {
		bits = bits<<8 | uint64(b[i])
	}
	return math.IsNaN(math.Float64frombits(bits))
}

func observeTime(u uint32) timeEvent {
	t := fit.VerifDecodeDateTime(u)
	return timeEvent{Kind: "time", U: toInts(leBytes(uint64(u), 4)), Unix: toInts(leBytes(uint64(t.Unix()), 8)),
		Back: toInts(leBytes(uint64(fit.VerifEncodeTime(t)), 4)), IsBase: b2i(fit.IsBaseTime(t)), Nanos: t.Nanosecond()}
}

// C17: coordinate and time value types convert exactly and flag invalids consistently.
func runC17(c *Ctx) {
	c.Level = "model_checking"
	c.Assume = []string{
		"Coord.tla states the clauses over integers (validity classes with their breakpoints; Degrees as the exact rational s*45/2^29 checked against the float64 bit pattern; round trip within one semicircle strictly inside the range; printed form as |P*2^29 - s*45*10^5| <= 2*2^29; time as epoch + u with the absolute Unix second)",
		"the sweep over the domain is native (all boundaries +-1000 and a stride in quick; all 2^32 values in thorough) using the same integer clauses; TLC validates the run-length encoding of Invalid() over the swept points against the class tables and a stratified sample of full observations event by event",
		"exactly +-2^30 semicircles (+-90 degrees) is left to the implementation (DESIGN.md C17)",
		"Go's float formatting is not modelled: the printed form is parsed back and checked as an integer inequality",
	}
	stride := int64(1 << 12)
	if c.thorough() {
		stride = 1
	}
	points := func(yield func(int32)) {}
	_ = points
	breaks := []int64{math.MinInt32, -(1 << 30), 0, 1 << 30, math.MaxInt32, -(1 << 29), 1 << 29, 536870912 * 3 / 2}
	// enumerate: returns sorted list of points for a worker slice
	type runT = [3]int64
	var mu sync.Mutex
	badCount := map[string]int64{}
	var badSample []coordEvent
	runsOf := map[string][]runT{}
	var total int64
	for _, kind := range []string{"lat", "lng"} {
		nw := 16
		parts := make([][]runT, nw)
		var wg sync.WaitGroup
		span := (int64(1) << 32) / int64(nw)
		for w := 0; w < nw; w++ {
			wg.Add(1)
			go func(w int) {
				defer wg.Done()
				lo := int64(math.MinInt32) + int64(w)*span
				hi := lo + span - 1
				var runs []runT
				var n int64
				local := map[string]int64{}
				var localBad []coordEvent
				visit := func(s int64) {
					e := observeCoord(kind, int32(s))
					n++
					if len(runs) > 0 && runs[len(runs)-1][2] == int64(e.Invalid) {
						runs[len(runs)-1][1] = s
					} else {
						runs = append(runs, runT{s, s, int64(e.Invalid)})
					}
					if b := clauseOK(e); b != "" {
						local[b]++
						if len(localBad) < 3 {
							localBad = append(localBad, e)
						}
					}
				}
				if stride == 1 {
					for s := lo; s <= hi; s++ {
						visit(s)
					}
				} else {
					// stride points merged with the neighbourhoods of the breakpoints, in order
					set := map[int64]bool{}
					for s := lo; s <= hi; s += stride {
						set[s] = true
					}
					for _, b := range breaks {
						for d := int64(-1000); d <= 1000; d++ {
							if x := b + d; x >= lo && x <= hi {
								set[x] = true
							}
						}
					}
					pts := make([]int64, 0, len(set))
					for s := range set {
						pts = append(pts, s)
					}
					sort.Slice(pts, func(i, j int) bool { return pts[i] < pts[j] })
					for _, s := range pts {
						visit(s)
					}
				}
				parts[w] = runs
				mu.Lock()
				total += n
				for k, v := range local {
					badCount[kind+": "+k] += v
				}
				badSample = append(badSample, localBad...)
				mu.Unlock()
			}(w)
		}
		wg.Wait()
		var merged []runT
		for _, p := range parts {
			for _, r := range p {
				if len(merged) > 0 && merged[len(merged)-1][2] == r[2] {
					merged[len(merged)-1][1] = r[1]
				} else {
					merged = append(merged, r)
				}
			}
		}
		runsOf[kind] = merged
	}
	for k, v := range badCount {
		var ex interface{}
		for _, e := range badSample {
			if e.Kind == k[:3] {
				ex = e
				break
			}
		}
		c.report("coord:"+k, fmt.Sprintf("%d swept values violate the clause %q", v, k), ex)
	}
	// time sweep (native): absolute instant, inverse, base time
	var tbad int64
	{
		var wg sync.WaitGroup
		tstride := uint64(1 << 10)
		if c.thorough() {
			tstride = 1
		}
		for w := 0; w < 16; w++ {
			wg.Add(1)
			go func(w int) {
				defer wg.Done()
				lo := uint64(w) << 28
				var nb int64
				var first *timeEvent
				var n int64
				for u := lo; u < lo+(1<<28); u += tstride {
					t := fit.VerifDecodeDateTime(uint32(u))
					n++
					if t.Unix() != 631065600+int64(u) || fit.VerifEncodeTime(t) != uint32(u) || fit.IsBaseTime(t) != (u == 0) || t.Nanosecond() != 0 {
						nb++
						if first == nil {
							e := observeTime(uint32(u))
							first = &e
						}
					}
				}
				mu.Lock()
				total += n
				tbad += nb
				if first != nil {
					c.report("time-sweep", fmt.Sprintf("time conversion wrong for %d swept second counts", nb), first)
				}
				mu.Unlock()
			}(w)
		}
		wg.Wait()
	}
	// TLC: runs + stratified sample
	rng := newRng(c.Seed)
	var tb bytes.Buffer
	nsample := 0
	emit := func(v interface{}) {
		b, _ := json.Marshal(v)
		tb.Write(b)
		tb.WriteByte('\n')
		nsample++
	}
	for _, kind := range []string{"lat", "lng"} {
		for _, b := range breaks {
			for d := int64(-3); d <= 3; d++ {
				if x := b + d; x >= math.MinInt32 && x <= math.MaxInt32 {
					emit(observeCoord(kind, int32(x)))
				}
			}
		}
		for i := 0; i < c.pick(1500, 40000); i++ {
			emit(observeCoord(kind, int32(rng.Uint32())))
		}
		for i := 0; i < 200; i++ {
			emit(observeCoord(kind, int32(rng.Intn(2001)-1000)))
		}
	}
	for _, u := range []uint32{0, 1, 2, 0x0FFFFFFF, 0x10000000, 0x7FFFFFFF, 0x80000000, 0xDA62B000 - 1, 0xDA62B000, 0xDA62B000 + 1, 0xFFFFFFFE, 0xFFFFFFFF} {
		emit(observeTime(u))
	}
	for i := 0; i < c.pick(1500, 40000); i++ {
		emit(observeTime(rng.Uint32()))
	}
	enc := func(rs []runT) [][]interface{} {
		var out [][]interface{}
		for _, r := range rs {
			out = append(out, []interface{}{i32(r[0]), i32(r[1]), r[2]})
		}
		return out
	}
	runsJSON, _ := json.Marshal(map[string]interface{}{"lat": enc(runsOf["lat"]), "lng": enc(runsOf["lng"])})
	mm := c.validateTraces("Trace_Coord", "TSpec", "Post", tb.Bytes(), map[string][]byte{"runs.json": runsJSON}, 6)
	c.Traces += int64(nsample)
	for _, m := range mm {
		c.report(fmt.Sprintf("coord-tlc:%v:%v", m["kind"], m["what"]), fmt.Sprintf("TLC: observation disagrees with Coord.tla: %v", m), m)
	}
	c.Cov["values_swept"] = total
	c.Cov["exhaustive"] = c.thorough()
	c.Cov["invalid_runs"] = map[string]interface{}{"lat": runsOf["lat"], "lng": runsOf["lng"]}
	c.Cov["observations_validated_by_tlc"] = nsample
	c.Cov["evaluations"] = total
	c.Cov["distinct_nontrivial"] = total
	c.Cov["rule"] = "every swept 32-bit value is a distinct case: both coordinate types over the semicircle domain and the second counts (quick: stride 2^12 / 2^10 plus all class boundaries +-1000; thorough: all 2^32 values of each)"
	c.sample(observeCoord("lat", 1<<29))
	c.sample(observeTime(0x3B9ACA00))
	c.finish()
}
