package main

import (
	"bytes"
	"encoding/json"
	"fmt"
	"strings"
	"time"

	"github.com/tormoder/fit"
)

// encodeString: Impl model (StringImpl, exhaustive with TLC, with the two
// defective truncation loops refuted) and Code ~ Impl conformance
// (Trace_String) on real calls through the verif hook.

var strChars = [][]byte{{97}, {195, 169}, {226, 130, 172}, {240, 159, 152, 128}}

func stringModel(c *Ctx) {
	mc, ms := c.pick(4, 5), c.pick(12, 20)
	for _, v := range [][2]string{{"for", "TRUE"}, {"if", "FALSE"}, {"none", "FALSE"}} {
		cfg := fmt.Sprintf("CONSTANTS\n Cut = \"%s\"\n MaxChars = %d\n MaxSize = %d\n Expect = %s\nINIT Init\nNEXT Next\n", v[0], mc, ms, v[1])
		r := c.runTLC(TLCRun{Module: "MC_StringImpl", Cfg: cfg, Workers: 1, HeapGB: 3, Timeout: 20 * time.Minute})
		if r.Exit != 0 {
			if strings.Contains(r.Out, "Assumption") && strings.Contains(r.Out, "is false") {
				if v[0] == "for" {
					c.report("stringimpl-model", "TLC: the transcription of encodeString (StringImpl) does not meet the string Contract:\n"+c.tlcTail(r), nil)
				} else {
					c.die("MC_StringImpl: the defective truncation loop %q is not refuted: the model is vacuous\n%s", v[0], c.tlcTail(r))
				}
			} else {
				c.die("TLC MC_StringImpl exit %d\n%s", r.Exit, c.tlcTail(r))
			}
		}
		c.account(r)
	}
	c.Cov["stringimpl_max_chars_x_max_size"] = []int{mc, ms}
}

func stringConformance(c *Ctx) {
	rng := newRng(c.Seed + 707)
	type ev struct {
		Str   []int   `json:"str"`
		Chars [][]int `json:"chars"`
		Whole int     `json:"whole"`
		Size  int     `json:"size"`
		Err   int     `json:"err"`
		Out   []int   `json:"out"`
	}
	var tb bytes.Buffer
	n := 0
	call := func(chars [][]byte, raw []byte, whole bool, size int) {
		e := ev{Str: toInts(raw), Chars: [][]int{}, Size: size, Out: []int{}}
		if whole {
			e.Whole = 1
			for _, ch := range chars {
				e.Chars = append(e.Chars, toInts(ch))
			}
		}
		out, err := fit.VerifEncodeString(string(raw), byte(size))
		if err != nil {
			e.Err = 1
		} else {
			e.Out = toInts(out)
		}
		b, _ := json.Marshal(e)
		tb.Write(b)
		tb.WriteByte('\n')
		n++
	}
	flat := func(chars [][]byte) []byte {
		var b []byte
		for _, ch := range chars {
			b = append(b, ch...)
		}
		return b
	}
	// the model's whole domain
	var rec func(prefix [][]byte, left int)
	maxSize := c.pick(12, 20)
	rec = func(prefix [][]byte, left int) {
		for sz := 1; sz <= maxSize; sz++ {
			call(prefix, flat(prefix), true, sz)
		}
		if left == 0 {
			return
		}
		for _, ch := range strChars {
			rec(append(append([][]byte{}, prefix...), ch), left-1)
		}
	}
	rec(nil, c.pick(4, 5))
	domain := n
	// longer strings, all field sizes; and inputs that are not whole characters
	for i := 0; i < c.pick(3000, 60000); i++ {
		var chars [][]byte
		for k := rng.Intn(40); k > 0; k-- {
			chars = append(chars, strChars[rng.Intn(4)])
		}
		raw := flat(chars)
		size := 1 + rng.Intn(255)
		if rng.Intn(2) == 0 {
			size = 1 + rng.Intn(len(raw)+3)
		}
		switch rng.Intn(5) {
		case 0:
			if len(raw) > 1 { // cut somewhere: possibly inside a character
				raw = raw[:1+rng.Intn(len(raw)-1)]
			}
			call(nil, raw, false, size)
		case 1:
			if len(raw) > 1 { // starts inside a character
				raw = raw[rng.Intn(len(raw)):]
			}
			call(nil, raw, false, size)
		default:
			call(chars, raw, true, size)
		}
	}
	mm := c.validateTraces("Trace_String", "TSpec", "Post", tb.Bytes(), nil, 4)
	c.Traces += int64(n)
	c.Cov["encodeString_calls_validated_against_StringImpl"] = n
	c.Cov["encodeString_model_domain_calls"] = domain
	drift := 0
	var ex []string
	for _, m := range mm {
		if b, ok := m["contract"].(bool); ok && b {
			c.report("encode-string", fmt.Sprintf("encodeString(%v, %v) breaks the string rule (whole characters that fit, NUL-terminated, never refused): got %v, the rule gives %v", m["str"], m["size"], m["observed"], m["expected"]), m)
			continue
		}
		drift++
		if len(ex) < 3 {
			ex = append(ex, fmt.Sprintf("encodeString(%v, %v): model %v, code %v", m["str"], m["size"], m["expected"], m["observed"]))
		}
	}
	c.Cov["stringimpl_conformance_drift"] = drift
	if drift > 0 {
		c.Cov["stringimpl_conformance_drift_samples"] = ex
		fmt.Printf("DRIFT property=%s %d encodeString calls differ from StringImpl on inputs outside the string rule (model drift, not a violation): %v\n", c.ID, drift, ex)
	}
}
