package main

import (
	"bytes"
	"fmt"
	"sync"
	"sync/atomic"
	"time"

	"github.com/tormoder/fit"
)

// containerFieldSweep: totality of what happens after a record was decoded -
// the step that hands the message to the container of the file's type. For
// every file type NewFile accepts, every (message, field) of the profile is
// sent alone with its own base type in 1..9 elements (strings: 1..9 bytes),
// two payload patterns, both byte orders; then every message with all its
// fields at once, every array field carrying k elements. A field-size specific
// fault in one container's handling of one message (an index computed from an
// array length, a loop stepping over a byte array) shows up here and nowhere
// in the single-container definition sweep.
func containerFieldSweep(c *Ctx, p *Profile) {
	var types []byte
	for t := 0; t < 256; t++ {
		if newFileErr(t) == nil {
			types = append(types, byte(t))
		}
	}
	type job struct {
		ft   byte
		pm   *PMsg
		fi   int // field index, -1 = all fields at once
		arch byte
	}
	payload := func(n, pat int) []byte {
		b := make([]byte, n)
		for k := range b {
			switch pat {
			case 0:
				b[k] = byte(0x61 + (k*7+n)%26)
			default:
				b[k] = byte(1 + (k*37+11*n)%120)
			}
		}
		return b
	}
	var decodes, panics int64
	var mu sync.Mutex
	var wg sync.WaitGroup
	const W = 16
	progress := make([]int64, W)
	current := make([][]byte, W)
	busy := make([]int32, W)
	jobs := make(chan job, 256)
	run := func(w int, file []byte, note string) {
		current[w] = file
		atomic.StoreInt32(&busy[w], 1)
		defer atomic.StoreInt32(&busy[w], 0)
		for _, chained := range []bool{false, true} {
			pn := func() (pn interface{}) {
				defer func() { pn = recover() }()
				if chained {
					fit.DecodeChained(bytes.NewReader(file))
				} else {
					fit.Decode(bytes.NewReader(file))
				}
				return nil
			}()
			atomic.AddInt64(&progress[w], 1)
			atomic.AddInt64(&decodes, 1)
			if pn != nil {
				atomic.AddInt64(&panics, 1)
				api := "Decode"
				if chained {
					api = "DecodeChained"
				}
				mu.Lock()
				c.report("panic:container:"+firstWords(fmt.Sprint(pn)), fmt.Sprintf("%s panics on a well-formed file (%s): %v", api, note, pn),
					map[string]interface{}{"input": toInts(file), "note": note})
				mu.Unlock()
			}
		}
	}
	for w := 0; w < W; w++ {
		wg.Add(1)
		go func(w int) {
			defer wg.Done()
			for j := range jobs {
				if j.fi >= 0 {
					f := j.pm.Fields[j.fi]
					bs := baseSize[f.B]
					for k := 1; k <= 9; k++ {
						for pat := 0; pat < 2; pat++ {
							s := newStream(12, false)
							s.FileId(0, j.arch, j.ft)
							s.Def(1, j.arch, uint16(j.pm.M), []FieldDef{{byte(f.N), byte(k * bs), baseByte[f.B]}}, nil)
							s.Data(1, payload(k*bs, pat))
							s.Data(1, payload(k*bs, 1-pat))
							run(w, s.Bytes(), fmt.Sprintf("file type %d, arch %d, %s field %d as base %#x in %d element(s)", j.ft, j.arch, j.pm.Name, f.N, baseByte[f.B], k))
						}
					}
					continue
				}
				for k := 1; k <= 9; k++ {
					var fd []FieldDef
					var pl []byte
					for _, f := range j.pm.Fields {
						n := baseSize[f.B]
						if f.A != 0 || f.B == 7 {
							n *= k
						}
						if len(pl)+n > 60000 || len(fd) >= 255 {
							break
						}
						fd = append(fd, FieldDef{byte(f.N), byte(n), baseByte[f.B]})
						pl = append(pl, payload(n, k&1)...)
					}
					if len(fd) == 0 {
						continue
					}
					s := newStream(12, false)
					s.FileId(0, j.arch, j.ft)
					s.Def(1, j.arch, uint16(j.pm.M), fd, nil)
					s.Data(1, pl)
					s.Data(1, pl)
					run(w, s.Bytes(), fmt.Sprintf("file type %d, arch %d, %s with all %d fields, arrays in %d element(s)", j.ft, j.arch, j.pm.Name, len(fd), k))
				}
			}
		}(w)
	}
	go func() {
		for _, ft := range types {
			for i := range p.Msgs {
				pm := &p.Msgs[i]
				for arch := byte(0); arch < 2; arch++ {
					jobs <- job{ft, pm, -1, arch}
					for fi := range pm.Fields {
						jobs <- job{ft, pm, fi, arch}
					}
				}
			}
		}
		close(jobs)
	}()
	done := make(chan struct{})
	go func() { wg.Wait(); close(done) }()
	last := make([]int64, W)
	stuck := 0
wait:
	for {
		select {
		case <-done:
			break wait
		case <-time.After(20 * time.Second):
			moved := false
			stuckAt := 0
			for w := range progress {
				v := atomic.LoadInt64(&progress[w])
				if v != last[w] {
					moved = true
				} else if atomic.LoadInt32(&busy[w]) == 1 {
					stuckAt = w
				}
				last[w] = v
			}
			if !moved {
				stuck++
				if stuck >= 2 {
					c.report("hang:container", "Decode does not return on a well-formed single-message file", map[string]interface{}{"input": toInts(current[stuckAt])})
					break wait
				}
			} else {
				stuck = 0
			}
		}
	}
	c.Cov["container_sweep_file_types"] = len(types)
	c.Cov["container_sweep_decodes"] = decodes
	c.Cov["container_sweep_panics"] = panics
	c.Cov["container_sweep_rule"] = "every file type NewFile accepts x every (message, field) alone in 1..9 elements of its own base type x 2 payload patterns x 2 byte orders, plus every message with all fields at once (arrays in 1..9 elements), through Decode and DecodeChained"
}
