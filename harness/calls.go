package main

import (
	"bytes"
	"encoding/json"
	"fmt"
	"io"
	"time"

	"github.com/tormoder/fit"
)

// One recorded call of a decoding entry point.
type Call struct {
	ID    int       `json:"id"`
	API   string    `json:"api"`
	Opts  CallOpts  `json:"opts"`
	Input []int     `json:"input"`
	Avail int       `json:"avail"`
	Fault int       `json:"fault"`
	Reset int       `json:"reset"`
	Reads [][]int   `json:"reads"`
	Ret   CallRet   `json:"ret"`
	Note  string    `json:"note,omitempty"`
	Post  *PostProj `json:"post,omitempty"`
	raw   []byte
	Final string `json:"-"` // verdict the Contract gave (filled in after validation)
	Why   string `json:"-"`
	NRec  int    `json:"-"`
}

type CallOpts struct {
	UF  int `json:"uf"`
	UM  int `json:"um"`
	Log int `json:"log"`
	// Shared: pass option values that were created once per process
	Shared bool `json:"-"`
}

type CallRet struct {
	Err      int         `json:"err"`
	ErrText  string      `json:"errtext"`
	Consumed int         `json:"consumed"`
	Files    []*FileProj `json:"files"`
	Hdr      []HdrProj   `json:"hdr"`
	FileId   []*MsgProj  `json:"fileid"`
	Panic    int         `json:"panic"`
	PanicMsg string      `json:"panicmsg,omitempty"`
	Hang     int         `json:"hang"`
	Past     int         `json:"past"` // the reader was called again after it had returned EOF / a fault
}

type readScript struct {
	chunks   []int
	cut      int // -1 none
	fault    int // -1 none
	withEOF  bool
	withErr  bool
	ferr     error // error value of the fault (nil: the harness's own)
	withLen  bool  // the reader also has a Len() method, like bytes.Reader
	withSeek bool  // the reader also implements io.Seeker, like *os.File
}

var plain = readScript{cut: -1, fault: -1}

type nullLogger struct{}

// the output is discarded, but the arguments are formatted as a real logger
// would (their String methods run)
func (nullLogger) Print(a ...interface{})            { fmt.Fprint(io.Discard, a...) }
func (nullLogger) Printf(f string, a ...interface{}) { fmt.Fprintf(io.Discard, f, a...) }
func (nullLogger) Println(a ...interface{})          { fmt.Fprintln(io.Discard, a...) }

// option values created once per process: a caller may well keep its
// options in a variable and pass the same values to every call
var sharedUF, sharedUM = fit.WithUnknownFields(), fit.WithUnknownMessages()

func (o CallOpts) options() []fit.DecodeOption {
	var out []fit.DecodeOption
	if o.Shared {
		if o.UF == 1 {
			out = append(out, sharedUF)
		}
		if o.UM == 1 {
			out = append(out, sharedUM)
		}
		return out
	}
	if o.Log == 1 {
		out = append(out, fit.WithLogger(nullLogger{}))
	}
	if o.UF == 1 {
		out = append(out, fit.WithUnknownFields())
	}
	if o.UM == 1 {
		out = append(out, fit.WithUnknownMessages())
	}
	return out
}

const maxReadsLogged = 3000

// runCall executes one entry point on input behind a scripted reader, under
// recover and a watchdog, and projects the result.
func (p *Profile) runCall(id int, api string, input []byte, rs readScript, opts CallOpts, reset bool) *Call {
	c := &Call{ID: id, API: api, Opts: opts, Input: toInts(input), raw: input, Avail: len(input), Reads: [][]int{}}
	if rs.cut >= 0 && rs.cut < c.Avail {
		c.Avail = rs.cut
	}
	if rs.fault >= 0 && rs.fault <= c.Avail {
		c.Avail = rs.fault
		c.Fault = 1
	}
	if reset {
		fit.VerifResetAccumulators()
		c.Reset = 1
	}
	sr := newScripted(input, rs.chunks)
	sr.cut, sr.fault, sr.withEOF, sr.withErr = rs.cut, rs.fault, rs.withEOF, rs.withErr
	if rs.ferr != nil {
		sr.ferr = rs.ferr
	}
	sr.maxLog = maxReadsLogged + 1
	var r io.Reader = sr
	if rs.withLen {
		r = lenReader{sr}
	}
	if rs.withSeek {
		r = seekReader{sr}
	}
	c.Ret.Files = []*FileProj{}
	c.Ret.Hdr = []HdrProj{}
	c.Ret.FileId = []*MsgProj{}
	done := make(chan struct{})
	go func() {
		defer close(done)
		defer func() {
			if x := recover(); x != nil {
				c.Ret.Panic = 1
				c.Ret.PanicMsg = fmt.Sprint(x)
			}
		}()
		var err error
		switch api {
		case "decode":
			var f *fit.File
			f, err = fit.Decode(r, opts.options()...)
			if f != nil {
				c.Ret.Files = append(c.Ret.Files, p.projFile(f))
			}
		case "chained":
			var fs []*fit.File
			fs, err = fit.DecodeChained(r, opts.options()...)
			for _, f := range fs {
				c.Ret.Files = append(c.Ret.Files, p.projFile(f))
			}
		case "integrity":
			err = fit.CheckIntegrity(r, false)
		case "integrity_hdr":
			err = fit.CheckIntegrity(r, true)
			if err == nil {
				// no header is returned by this API; re-read it for the comparison
				h, _ := fit.DecodeHeader(bytes.NewReader(input))
				c.Ret.Hdr = append(c.Ret.Hdr, projHeader(h))
			}
		case "header":
			var h fit.Header
			h, err = fit.DecodeHeader(r)
			if err == nil {
				c.Ret.Hdr = append(c.Ret.Hdr, projHeader(h))
			}
		case "header_method":
			// Header.CheckIntegrity on a Header value built from the input bytes
			var h fit.Header
			h.Size = input[0]
			h.ProtocolVersion = input[1]
			h.ProfileVersion = uint16(input[2]) | uint16(input[3])<<8
			h.DataSize = uint32(input[4]) | uint32(input[5])<<8 | uint32(input[6])<<16 | uint32(input[7])<<24
			copy(h.DataType[:], input[8:12])
			if h.Size == 14 {
				h.CRC = uint16(input[12]) | uint16(input[13])<<8
			}
			err = h.CheckIntegrity()
			sr.pos = int(h.Size)
			if err == nil {
				c.Ret.Hdr = append(c.Ret.Hdr, projHeader(h))
			}
		case "header_fileid":
			var h fit.Header
			var id fit.FileIdMsg
			h, id, err = fit.DecodeHeaderAndFileID(r)
			if err == nil {
				c.Ret.Hdr = append(c.Ret.Hdr, projHeader(h))
				c.Ret.FileId = append(c.Ret.FileId, p.projMsg(id))
			}
		default:
			panic("unknown api " + api)
		}
		if err != nil {
			c.Ret.Err = 1
			c.Ret.ErrText = err.Error()
		}
	}()
	select {
	case <-done:
	case <-time.After(20 * time.Second):
		c.Ret.Hang = 1
		return c
	}
	c.Ret.Consumed = sr.pos
	if sr.past {
		c.Ret.Past = 1
	}
	if len(sr.reads) <= maxReadsLogged {
		c.Reads = sr.readsJSON()
	}
	return c
}

var _ = io.EOF

func callsNDJSON(calls []*Call) []byte {
	var buf bytes.Buffer
	for _, c := range calls {
		b, err := json.Marshal(c)
		if err != nil {
			panic(err)
		}
		buf.Write(b)
		buf.WriteByte('\n')
	}
	return buf.Bytes()
}
