package main

import (
	"bytes"
	"encoding/binary"
	"math/rand"
	"time"

	"github.com/tormoder/fit"
)

// encodeSamples returns files produced by Encode from Files built through
// the public API (a small hand-written variety; the complete generator over
// all file types lives in the C06 driver).
func encodeSamples(rng *rand.Rand, n int) [][]byte {
	var out [][]byte
	for i := 0; i < n; i++ {
		var f *fit.File
		h := fit.NewHeader([]fit.ProtocolVersion{fit.V10, fit.V20}[rng.Intn(2)], rng.Intn(2) == 0)
		switch i % 3 {
		case 0:
			f, _ = fit.NewFile(fit.FileTypeActivity, h)
			a, _ := f.Activity()
			a.Activity = fit.NewActivityMsg()
			a.Activity.Timestamp = time.Unix(1500000000+int64(rng.Intn(1e6)), 0).UTC()
			a.Activity.NumSessions = uint16(rng.Intn(5))
			if i%2 == 0 {
				// array fields (their base type byte is part of what a burst may hit)
				sm := fit.NewSessionMsg()
				sm.Timestamp = time.Unix(1500000000, 0).UTC()
				sm.TimeInHrZone = []uint32{uint32(rng.Intn(100000)), uint32(rng.Intn(100000)), 7}
				sm.TimeInPowerZone = []uint32{1, 2}
				a.Sessions = append(a.Sessions, sm)
			}
			for k := rng.Intn(5); k >= 0; k-- {
				r := fit.NewRecordMsg()
				r.Timestamp = time.Unix(1500000000+int64(k), 0).UTC()
				r.HeartRate = uint8(rng.Intn(200))
				r.Power = uint16(rng.Intn(1000))
				a.Records = append(a.Records, r)
			}
		case 1:
			f, _ = fit.NewFile(fit.FileTypeSettings, h)
			s, _ := f.Settings()
			u := fit.NewUserProfileMsg()
			u.FriendlyName = "verif"
			u.Weight = uint16(rng.Intn(2000))
			s.UserProfiles = append(s.UserProfiles, u)
		default:
			f, _ = fit.NewFile(fit.FileTypeWorkout, h)
			w, _ := f.Workout()
			w.Workout = fit.NewWorkoutMsg()
			w.Workout.WktName = "w"
			w.Workout.NumValidSteps = 1
			st := fit.NewWorkoutStepMsg()
			st.MessageIndex = 0
			st.DurationValue = uint32(rng.Intn(100000))
			w.WorkoutSteps = append(w.WorkoutSteps, st)
		}
		f.FileId.Manufacturer = fit.ManufacturerDevelopment
		f.FileId.TimeCreated = time.Unix(1400000000, 0).UTC()
		var buf bytes.Buffer
		var arch binary.ByteOrder = binary.LittleEndian
		if rng.Intn(2) == 0 {
			arch = binary.BigEndian
		}
		if i%4 == 1 {
			// a File that was decoded or encoded before: its header still carries the old values
			f.Header.CRC = uint16(1 + rng.Intn(65535))
			f.Header.DataSize = uint32(rng.Intn(100000))
			f.CRC = uint16(rng.Intn(65536))
		}
		if err := fit.Encode(&buf, f, arch); err == nil {
			out = append(out, buf.Bytes())
		}
		if i%4 == 2 {
			// the same File encoded again after it grew
			f.FileId.Number = uint16(1 + rng.Intn(1000))
			f.FileId.ProductName = "verif"
			var buf2 bytes.Buffer
			if err := fit.Encode(&buf2, f, arch); err == nil {
				out = append(out, buf2.Bytes())
			}
		}
	}
	return out
}
