package main

import (
	"fmt"
	"math"
	"reflect"
	"time"

	"github.com/tormoder/fit"
)

// Projection of decoded values into the canonical byte form shared with the
// TLA+ specification (see spec/FitValues.tla):
//   unsigned / signed ints, floats: little-endian bytes at the Go type's width
//   string: its bytes;  []T: concatenation of elements;  []string: each + NUL
//   time.Time: 4 bytes LE seconds since the FIT epoch (the instant) followed by
//              8 bytes LE two's complement zone offset in seconds
//   Latitude / Longitude: 4 bytes LE two's complement semicircles
// A field equal to the invalid value of its profile type is omitted.

type MsgProj struct {
	M int             `json:"m"`
	F [][]interface{} `json:"f"` // [sindex, [bytes]]
}

var (
	timeType = reflect.TypeOf(time.Time{})
	latType  = reflect.TypeOf(fit.Latitude{})
	lngType  = reflect.TypeOf(fit.Longitude{})
)

func leBytes(v uint64, w int) []byte {
	b := make([]byte, w)
	for i := 0; i < w; i++ {
		b[i] = byte(v >> (8 * uint(i)))
	}
	return b
}

func timeBytes(t time.Time) []byte {
	secs := int64(t.Sub(fitEpoch) / time.Second)
	_, off := t.Zone()
	b := leBytes(uint64(secs), 4)
	if secs < 0 || secs > math.MaxUint32 || t.Nanosecond() != 0 {
		// outside the FIT range: make it unequal to every spec value
		b = []byte{0xDE, 0xAD, 0xBE, 0xEF, 0xDE, 0xAD}
	}
	return append(b, leBytes(uint64(int64(off)), 8)...)
}

func scalarBytes(v reflect.Value) []byte {
	switch v.Kind() {
	case reflect.Uint8, reflect.Uint16, reflect.Uint32, reflect.Uint64:
		return leBytes(v.Uint(), int(v.Type().Size()))
	case reflect.Int8, reflect.Int16, reflect.Int32, reflect.Int64:
		return leBytes(uint64(v.Int()), int(v.Type().Size()))
	case reflect.Float32:
		return leBytes(uint64(math.Float32bits(float32(v.Float()))), 4)
	case reflect.Float64:
		return leBytes(math.Float64bits(v.Float()), 8)
	case reflect.String:
		return []byte(v.String())
	case reflect.Bool:
		if v.Bool() {
			return []byte{1}
		}
		return []byte{0}
	}
	panic(fmt.Sprintf("scalarBytes: unsupported kind %v", v.Kind()))
}

// fieldBytes returns the canonical bytes of one struct field and whether it
// is "present" (differs from the invalid value of the profile type pf; pf may
// be nil for a struct field without a profile entry: then Go zero is absent).
func fieldBytes(v reflect.Value, pf *PField) ([]byte, bool) {
	switch v.Type() {
	case timeType:
		t := v.Interface().(time.Time)
		_, off := t.Zone()
		return timeBytes(t), !(t.Equal(fitEpoch) && off == 0)
	case latType:
		l := v.Interface().(fit.Latitude)
		return leBytes(uint64(int64(l.Semicircles())), 4), l.Semicircles() != 0x7FFFFFFF
	case lngType:
		l := v.Interface().(fit.Longitude)
		return leBytes(uint64(int64(l.Semicircles())), 4), l.Semicircles() != 0x7FFFFFFF
	}
	if v.Kind() == reflect.Slice {
		if v.Len() == 0 {
			return nil, false
		}
		var out []byte
		for i := 0; i < v.Len(); i++ {
			e := v.Index(i)
			out = append(out, scalarBytes(e)...)
			if e.Kind() == reflect.String {
				out = append(out, 0)
			}
		}
		return out, true
	}
	b := scalarBytes(v)
	if v.Kind() == reflect.String {
		return b, len(b) > 0
	}
	if pf == nil {
		return b, !v.IsZero()
	}
	inv := baseInvalid(pf.B)
	if len(inv) != len(b) {
		return b, true // width mismatch between table and struct: C15's business; never hide it
	}
	for i := range b {
		if b[i] != inv[i] {
			return b, true
		}
	}
	return b, false
}

// projMsg projects a message struct (value or pointer).
func (p *Profile) projMsg(x interface{}) *MsgProj {
	v := reflect.Indirect(reflect.ValueOf(x))
	m := int(fit.VerifGlobalMesgNum(v.Type()))
	mp := &MsgProj{M: m, F: [][]interface{}{}}
	for i := 0; i < v.NumField(); i++ {
		if !v.Type().Field(i).IsExported() {
			continue
		}
		b, present := fieldBytes(v.Field(i), p.bySindex(m, i))
		if present {
			mp.F = append(mp.F, []interface{}{i, toInts(b)})
		}
	}
	return mp
}

type HdrProj struct {
	Size     int   `json:"size"`
	Proto    int   `json:"proto"`
	Profile  int   `json:"profile"`
	DataSize []int `json:"datasize"`
	DataType []int `json:"datatype"`
	CRC      int   `json:"crc"`
}

func projHeader(h fit.Header) HdrProj {
	return HdrProj{int(h.Size), int(h.ProtocolVersion), int(h.ProfileVersion), toInts(leBytes(uint64(h.DataSize), 4)), toInts(h.DataType[:]), int(h.CRC)}
}

type FileProj struct {
	Hdr       HdrProj               `json:"hdr"`
	CRC       int                   `json:"crc"`
	Type      int                   `json:"type"`
	FileId    *MsgProj              `json:"fileid"`
	Creator   []*MsgProj            `json:"creator"`
	TC        []*MsgProj            `json:"tc"`
	Container string                `json:"container"` // accessor name whose container is non-nil ("" if none)
	Accessors []string              `json:"accessors"` // accessors that return (non-nil, nil)
	Slots     map[string][]*MsgProj `json:"slots"`
	UnkM      [][]int               `json:"unkm"`
	UnkF      [][]int               `json:"unkf"`
	HasUnkM   int                   `json:"hasunkm"`
	HasUnkF   int                   `json:"hasunkf"`
	NMsgs     int                   `json:"nmsgs"`
	// EmptyNotNil: list slots that hold a non-nil slice without messages. A File is
	// "deeply equal" to another only if they also agree on this (reflect.DeepEqual
	// distinguishes nil from empty); the Contract does not look at it.
	EmptyNotNil []string `json:"emptynotnil"`
}

func (p *Profile) projFile(f *fit.File) *FileProj {
	if f == nil {
		return nil
	}
	fp := &FileProj{Hdr: projHeader(f.Header), CRC: int(f.CRC), Type: int(f.Type()), Slots: map[string][]*MsgProj{},
		Creator: []*MsgProj{}, TC: []*MsgProj{}, UnkM: [][]int{}, UnkF: [][]int{}, Accessors: []string{}, EmptyNotNil: []string{}}
	fp.FileId = p.projMsg(f.FileId)
	if f.FileCreator != nil {
		fp.Creator = append(fp.Creator, p.projMsg(f.FileCreator))
	}
	if f.TimestampCorrelation != nil {
		fp.TC = append(fp.TC, p.projMsg(f.TimestampCorrelation))
	}
	for _, a := range fileTypeAccessors {
		x, err := a.get(f)
		if err == nil && x != nil && !reflect.ValueOf(x).IsNil() {
			fp.Accessors = append(fp.Accessors, a.name)
		}
	}
	// the container: found through whichever accessor succeeds for the
	// file's reported type
	if c, name := container(f); c != nil {
		fp.Container = name
		cv := reflect.ValueOf(c).Elem()
		for i := 0; i < cv.NumField(); i++ {
			name := cv.Type().Field(i).Name
			fv := cv.Field(i)
			list := []*MsgProj{}
			switch fv.Kind() {
			case reflect.Slice:
				if !fv.IsNil() && fv.Len() == 0 {
					fp.EmptyNotNil = append(fp.EmptyNotNil, name)
				}
				for j := 0; j < fv.Len(); j++ {
					e := fv.Index(j)
					if e.Kind() == reflect.Ptr && e.IsNil() {
						// an entry that is no message at all: it still counts as an entry of the slot
						list = append(list, &MsgProj{M: 65535, F: [][]interface{}{}})
						continue
					}
					list = append(list, p.projMsg(e.Interface()))
				}
			case reflect.Ptr:
				if !fv.IsNil() {
					list = append(list, p.projMsg(fv.Interface()))
				}
			}
			fp.NMsgs += len(list)
			fp.Slots[name] = list
		}
	}
	if f.UnknownMessages != nil {
		fp.HasUnkM = 1
	}
	if f.UnknownFields != nil {
		fp.HasUnkF = 1
	}
	for _, u := range f.UnknownMessages {
		fp.UnkM = append(fp.UnkM, []int{int(u.MesgNum), u.Count})
	}
	for _, u := range f.UnknownFields {
		fp.UnkF = append(fp.UnkF, []int{int(u.MesgNum), int(u.FieldNum), u.Count})
	}
	return fp
}
