package main

import (
	"bytes"
	"encoding/json"
	"fmt"
	"strings"
	"time"

	"github.com/tormoder/fit"
)

// Header routines: Impl model (HeaderImpl, exhaustive with TLC) and Code ~ Impl
// conformance (Trace_Header) on real calls of DecodeHeader, Header.CheckIntegrity
// and Header.MarshalBinary.

type hdrJSON struct {
	Size    int   `json:"size"`
	Proto   int   `json:"proto"`
	Profile int   `json:"profile"`
	DS      []int `json:"ds"`
	DType   []int `json:"dtype"`
	CRC     int   `json:"crc"`
}

func hdrOf(h fit.Header) hdrJSON {
	return hdrJSON{int(h.Size), int(h.ProtocolVersion), int(h.ProfileVersion),
		[]int{int(byte(h.DataSize)), int(byte(h.DataSize >> 8)), int(byte(h.DataSize >> 16)), int(byte(h.DataSize >> 24))},
		toInts(h.DataType[:]), int(h.CRC)}
}

func hdrErrClass(err error) string {
	if err == nil {
		return "none"
	}
	s := err.Error()
	switch {
	case strings.Contains(s, "illegal header size"):
		return "size"
	case strings.Contains(s, "not supported"):
		return "proto"
	case strings.Contains(s, "was not '.FIT'"):
		return "notfit"
	case strings.Contains(s, "header checksum failed"):
		return "crc"
	case strings.Contains(s, "read"):
		return "read"
	}
	return "other"
}

func headerModel(c *Ctx) {
	for _, v := range []struct{ pre, exp string }{{"FALSE", "TRUE"}, {"TRUE", "FALSE"}} {
		cfg := fmt.Sprintf("CONSTANTS\n PreFixMethodNoFeed = %s\n ExpectAgree = %s\nINIT Init\nNEXT Next\n", v.pre, v.exp)
		r := c.runTLC(TLCRun{Module: "MC_HeaderImpl", Cfg: cfg, Workers: 1, HeapGB: 2, Timeout: 10 * time.Minute})
		if r.Exit != 0 {
			if strings.Contains(r.Out, "Assumption") && strings.Contains(r.Out, "is false") {
				if v.pre == "FALSE" {
					c.report("headerimpl-model", "TLC: the transcription of header.go (HeaderImpl) violates the header clause of C04:\n"+c.tlcTail(r), nil)
				} else {
					c.die("MC_HeaderImpl: the repaired defect (method does not feed the checksum) is not refuted: the model is vacuous\n%s", c.tlcTail(r))
				}
			} else {
				c.die("TLC MC_HeaderImpl exit %d\n%s", r.Exit, c.tlcTail(r))
			}
		}
		c.account(r)
	}
	c.Cov["headerimpl_headers_enumerated"] = 5670
}

func headerConformance(c *Ctx) {
	rng := newRng(c.Seed + 4040)
	type ev struct {
		Op  string  `json:"op"`
		In  []int   `json:"in"`
		Err string  `json:"err"`
		H   hdrJSON `json:"h"`
		Out []int   `json:"out"`
	}
	var tb bytes.Buffer
	n := 0
	emit := func(e ev) {
		if e.In == nil {
			e.In = []int{}
		}
		if e.Out == nil {
			e.Out = []int{}
		}
		if e.H.DS == nil {
			e.H.DS, e.H.DType = []int{0, 0, 0, 0}, []int{0, 0, 0, 0}
		}
		b, _ := json.Marshal(e)
		tb.Write(b)
		tb.WriteByte('\n')
		n++
	}
	sizes := []int{12, 14, 12, 14, 12, 14, 0, 13, 15, 255}
	protos := []int{0x00, 0x10, 0x20, 0x2F, 0x30, 0xFF}
	dtypes := []string{".FIT", ".FIT", ".FIT", ".FIS", "xFIT", ".fit"}
	rounds := c.pick(1500, 40000)
	for i := 0; i < rounds; i++ {
		var h fit.Header
		h.Size = byte(sizes[rng.Intn(len(sizes))])
		h.ProtocolVersion = byte(protos[rng.Intn(len(protos))])
		if rng.Intn(4) == 0 {
			h.ProtocolVersion = byte(rng.Intn(256))
		}
		h.ProfileVersion = uint16(rng.Intn(65536))
		h.DataSize = rng.Uint32()
		copy(h.DataType[:], dtypes[rng.Intn(len(dtypes))])
		b12 := []byte{h.Size, h.ProtocolVersion, byte(h.ProfileVersion), byte(h.ProfileVersion >> 8),
			byte(h.DataSize), byte(h.DataSize >> 8), byte(h.DataSize >> 16), byte(h.DataSize >> 24)}
		b12 = append(b12, h.DataType[:]...)
		good := crc16(b12)
		switch rng.Intn(7) {
		case 6: // values that might be taken for "no CRC stored"
			h.CRC = []uint16{0xFFFF, 0x0001, 0xFF00, 0x00FF, 0x8000}[rng.Intn(5)]
		case 0:
			h.CRC = 0
		case 1, 2:
			h.CRC = good
		case 3:
			h.CRC = good ^ (1 << uint(rng.Intn(16)))
		case 4:
			h.CRC = good>>8 | good<<8 // byte-swapped
		default:
			h.CRC = uint16(rng.Intn(65536))
		}
		wire := append([]byte{}, b12...)
		if h.Size != 12 {
			wire = append(wire, byte(h.CRC), byte(h.CRC>>8))
		}
		if rng.Intn(10) == 0 {
			wire = wire[:1+rng.Intn(len(wire)-1)] // truncated
		}
		// DecodeHeader
		func() {
			defer func() {
				if r := recover(); r != nil {
					emit(ev{Op: "decode", In: toInts(wire), Err: "other"})
				}
			}()
			got, err := fit.DecodeHeader(bytes.NewReader(wire))
			e := ev{Op: "decode", In: toInts(wire), Err: hdrErrClass(err)}
			if err == nil {
				e.H = hdrOf(got)
			}
			emit(e)
		}()
		// the method is defined for sizes 12 and 14 (it indexes 14 bytes of a Size-long buffer)
		if h.Size == 12 || h.Size == 14 {
			hm := h
			if h.Size == 12 && rng.Intn(2) == 0 {
				hm.CRC = 0
			}
			emit(ev{Op: "method", H: hdrOf(hm), Err: hdrErrClass(hm.CheckIntegrity())})
			out, err := h.MarshalBinary()
			if err == nil {
				emit(ev{Op: "marshal", H: hdrOf(h), Out: toInts(out)})
			} else {
				emit(ev{Op: "marshal", H: hdrOf(h), Out: []int{}})
			}
		}
	}
	mm := c.validateTraces("Trace_Header", "TSpec", "Post", tb.Bytes(), nil, 3)
	c.Traces += int64(n)
	c.Cov["header_routine_calls_validated_against_HeaderImpl"] = n
	drift := 0
	var ex []string
	for _, m := range mm {
		if b, ok := m["contract"].(bool); ok && b {
			c.report("header-crc:"+str(m["what"]), fmt.Sprintf("a header routine decides the CRC of a header wrongly (%s): HeaderImpl / Contract %v, real code %v", str(m["what"]), m["expected"], m["observed"]), m)
			continue
		}
		drift++
		if len(ex) < 4 {
			ex = append(ex, fmt.Sprintf("%v: model %v, code %v", m["what"], m["expected"], m["observed"]))
		}
	}
	c.Cov["headerimpl_conformance_drift"] = drift
	if drift > 0 {
		c.Cov["headerimpl_conformance_drift_samples"] = ex
		fmt.Printf("DRIFT property=%s %d header routine calls are not what HeaderImpl computes (model drift outside the CRC clause, not a violation): %v\n", c.ID, drift, ex)
	}
}
