#!/bin/bash
# Offline setup: build the harness once (warms the Go build cache) and check the tools.
export GOFLAGS=-mod=mod GOPROXY=off GOSUMDB=off GOTOOLCHAIN=local
set -e
cd /verif/harness
cp /repo/go.sum .
mkdir -p /verif/bin /verif/evidence
go build -tags verif -o /verif/bin/vcheck .
go build -race -tags verif -o /verif/bin/vcheck-race .
java -cp /opt/veriftools/tla/tla2tools.jar tlc2.TLC -h >/dev/null 2>&1 || true
echo setup ok
