#!/usr/bin/env python3
"""Regenerates /verif/MANIFEST.json from the table below (single source of truth)."""
import json, subprocess

HOOK_COMMITS = ["5ccaaac", "7f20f04", "91b53dd"]

# id -> dict(level, text, note, technique, design)
BUILT = {
 "C01": dict(
  level="model_checking",
  text="Validator.tla transcribes validateFieldDef and models what the reflection setters and scratch-buffer slices accept (StoreSafe); TLC evaluates Validate = ok => StoreSafe for every profile class present in the compiled tables x all 256 base-type bytes x all 256 sizes (1.7M evaluations) and exports the expected verdict table. The real decoder is then run on every single-field definition stream (message x field x base-type byte x size x byte order, followed by matching data; one target per class plus random ones in quick, all 779 fields plus unknown fields/messages in thorough): no panic, no hang, and the error/no-error verdict is compared with the model's table (differences are reported as model drift). Arbitrary byte strings (random, and valid files under bit flips, noise, splices, truncation, header / first-record / definition edits) go through all six entry points with seeded chunkings, cuts and faults under recover and a watchdog; a sample of those calls is validated in full by TLC against the three-valued Contract. Termination of the reader under every chunking is a TLC liveness property of FrameImpl (checked in C10/C11).",
  note="Trusted: TLC; premise asserted from the exported tables: no float-typed profile field (TLC reports that for such a class the validator would be unsound). Reader assumption: Read returns n > 0 or an error.",
  technique="TLA+ model of the definition validator vs reflection safety (TLC exhaustive) + exhaustive replay of the definition space into the real decoder + byte-string totality runs with TLC trace validation of a sample",
  design="DESIGN.md section 5, C01"),
 "C04": dict(
  level="model_checking",
  text="TLC proves on Crc16.tla the residue lemma, linearity, that every non-zero error pattern of span <= 16 bits at each of the 8 bit alignments (524 280 windows) has a non-zero CRC and that a non-zero register never returns to zero under further bytes - so any burst <= 16 bits changes the residue and the expected verdict is the constant 'error'. Natively, valid files (device, generated, Encode output) are corrupted at every start bit outside byte 0 and bytes 4..7 with structured, seeded and word-clearing patterns (all odd 16-bit patterns for short files in thorough) and Decode and CheckIntegrity must both reject. TLC validates recorded calls: valid files pass CheckIntegrity and Decode, sampled corruptions are rejected, and a header matrix (sizes 12/14 x protocol bytes x data type x stored CRC {0, correct, corrupted} x corrupted covered bytes) gets the same verdict (FitRef!HeaderAt) from DecodeHeader, CheckIntegrity (both modes), Decode and Header.CheckIntegrity. HeaderImpl.tla transcribes decodeHeader, Header.CheckIntegrity and Header.MarshalBinary; TLC checks on 5 670 headers that each decides the CRC clause correctly, that they agree, that the residue test equals the comparison, and that MarshalBinary's output is accepted and returned (the repaired defect 3d277e4 as a switch must be refuted); thousands of real calls of the three routines per run are validated against that model (Trace_Header). Valid files are also read through chunked readers on the CheckIntegrity path, and every Encode output (both byte orders) must pass CheckIntegrity and Decode.",
  note="Trusted: TLC, Bitwise module. The burst sweep itself is native enumeration with a TLC-proved constant oracle. Header.CheckIntegrity only for sizes 12 and 14.",
  technique="TLC lemmas on the CRC (burst detection) + native burst sweep against the real code + TLC trace validation of integrity verdicts across the four header-checking APIs",
  design="DESIGN.md section 5, C04"),
 "C05": dict(
  level="model_checking",
  text="The independent parser is the TLA+ reference decoder FitRef, interpreted by TLC: for every recorded Encode call it parses the bytes written (header, data size, both CRCs, definition before data, record length = sum of field sizes, sizes multiples of the base type, the walk ending exactly at the data size) and compares every message on the wire with the projection of the File taken before the call (arrays up to invalid padding and profile length, strings up to profile length - 1, local times by wall clock), then the post-state clause (File.Header.DataSize, File.Header.CRC, File.CRC = values parsed from the output). Files are built by reflection through the public constructors over all 17 file types: random field subsets at three densities, fresh and non-fresh headers (CRC/DataSize left by an earlier call), a second Encode after modifying the File, out-of-domain values (invalid UTF-8, over-long strings/arrays: Encode may refuse, but whatever it writes must parse), both byte orders, headers with and without CRC; thorough adds every hosted message type with every field alone.",
  note="Trusted: TLC. EncoderImpl.tla (transcription of writer.go on activity files with <= 2 records over 4 fields, both byte orders and header sizes: FitRef parses its output back to exactly the File, output is a function of the File; the repaired map-order defect is refuted) is checked exhaustively in every run; binding of the whole encoder is by trace validation of real Encode calls.",
  technique="TLA+ FIT grammar/reference decoder as independent parser + TLC trace validation of recorded Encode calls",
  design="DESIGN.md section 5, C05"),
 "C06": dict(
  level="model_checking",
  text="In-domain Files (every hosted message type with every field alone in both byte orders, plus random subsets) are encoded, the output decoded and integrity-checked with the real code. TLC validates both arrows over the shared wire bytes: the encode event (File vs wire, with the property's relaxations) and the decode event (wire vs decoded File, exact Contract values incl. component-derived fields); their composition is the property's field-for-field relation, including message counts and order per slot and the file type.",
  note="Trusted: TLC. Domain as drawn by the generator (strings <= profile length - 1 bytes of valid UTF-8, arrays <= profile length, times with in-range readings, valid coordinates); string fields of profile length 1 stay unset. Differences confined to accumulated component destinations are C18's known findings and are not reported here.",
  technique="TLA+ reference decoder + TLC trace validation of encode and decode events sharing the wire bytes",
  design="DESIGN.md section 5, C06"),
 "C07": dict(
  level="model_checking",
  text="For every input that the real Decode accepts (device files, profile-driven generated streams, string streams with unterminated / multi-byte strings, long message groups with late-appearing fields) the chain x -> F0 -> e1 -> F1 -> e2 -> F2 is executed with alternating byte orders; each Decode and Encode call is validated by TLC (decode events against FitRef, encode events against the File encoded), e1 must pass CheckIntegrity, every re-decode must succeed, and F1 = F2 on content. Encode failures are violations unless they match a listed finding (the UTF-8 finding only covers Files that really hold an invalid string). StringImpl.tla transcribes encodeString: TLC checks it against the string rule (NUL-terminated, longest prefix of whole characters that fits, valid UTF-8 never refused) on every string of <= 4/5 characters of 1-4 bytes x field sizes 1..12/20 and refutes the two defective truncation loops; the whole model domain and thousands of longer strings go through the real function (hook VerifEncodeString) and are validated by TLC (Trace_String).",
  note="Trusted: TLC. Known finding: decoded strings that are not valid UTF-8 cannot be re-encoded. Messages that no container holds, unknown and developer fields are not File content.",
  technique="TLA+ reference decoder + TLC trace validation of two re-encode generations per accepted input",
  design="DESIGN.md section 5, C07"),
 "C08": dict(
  level="model_checking",
  text="ApiImpl.tla models the process: calls over a pool, a process-wide accumulator read and written by accumulating records. TLC checks ResultsPure (every call returns Pure(input)) for all call histories up to length 3/4 over three abstract inputs for per-call accumulators, and finds the counterexample Decode(A); Decode(A) for the design as implemented. The histories TLC enumerates, every ordered pair of pool calls and seeded random histories (Decode / DecodeChained / Encode over device files, component streams, files starting with compressed headers or local times, chains, Files with over-long strings) are replayed against the real library, each in its own fresh child process; Pure is tabulated by executing each call first in a fresh process; TLC (Trace_Api) compares every recorded result with the table. Encode is repeated 20x per File inside a call (identical bytes required). The pool also holds inputs differing only in the size a definition declares, Files differing only in the length of their strings, an Encode that fails, and the decode options are values created once per process.",
  note="Trusted: TLC; digests (sha256 of the full projection / of the bytes written). Known finding: record.distance continues across Decode calls (package-level accumulator).",
  technique="TLA+ process model (ApiImpl) checked by TLC + replay of TLC-enumerated and random call histories in fresh processes + TLC trace validation against fresh-process results",
  design="DESIGN.md section 5, C08"),
 "C09": dict(
  level="model_checking",
  text="ApiImpl.tla with two goroutines: TLC explores every interleaving of record-granularity steps with Load and Store of the process-wide accumulator as separate steps; NoRace and ResultsPure hold for per-call state and fail for the design as implemented. Every schedule TLC enumerates is forced on real goroutines through the public interface (a gated reader hands out exactly one record per Read and blocks until the schedule releases that goroutine), results compared with the sequential ones. Data-race freedom is decided by the Go race detector on a -race build: 8 free-running goroutines over the pool (Decode, DecodeChained, CheckIntegrity, Encode) started together in a fresh process, once over inputs without accumulated fields (must be clean and equal to the alone-results) and once over the whole pool; and once per entry point over the clean pool (calls of one kind overlap); every other goroutine passes a logger; the pool holds files larger than 4 / 32 / 64 KiB; a panic inside a concurrent call counts as a result that differs from the call made alone; race reports and results are validated by TLC (Trace_Api: NoRace, result = Pure).",
  note="Trusted: TLC, the Go race detector (its reports are observed facts in the trace). Known findings: race and interleaving-dependent record.distance on the package-level accumulators.",
  technique="TLA+ process model with 2 goroutines (TLC, all interleavings) + deterministic schedule replay through gated readers + race-detector stress validated against the Api contract",
  design="DESIGN.md section 5, C09"),
 "C10": dict(
  level="model_checking",
  text="FrameImpl.tla transcribes the decoder's reader (binary.Read of the size byte, io.ReadFull of the header, fill with min(buffer, limit - n), readByte/readFull, checkCRC, the DecodeChained loop) against an environment that answers every Read with any 1..req available bytes, EOF or a fault (optionally together with the last bytes). TLC checks NeverPastFrame, SuccessConsumesExactly, CleanEndIsOk, PartialContent and termination for every cut point, every fault point and every chunking of small chains (the state is position/buffered/fetched, so 2^n chunkings collapse to O(n^2) states). Recorded calls of the real code (valid files followed by trailing bytes x 10 chunk scripts x 5 entry points; chains of 2-3 files) are validated by TLC: every Read request ends inside its frame, success consumes header+data+2, every chained file equals the Contract's decode; chained results are also compared with the same bytes decoded alone (fixed chains put files whose first records lean on no reference behind files full of timestamps), DecodeHeader / DecodeHeaderAndFileID with the Contract's header and file_id and with what Decode reports; consumption is also checked behind seekable readers, under every Decode option set and for frames without data.",
  note="Trusted: TLC. FrameImpl is bound to the code through the Contract-level read discipline on all recorded Read sequences, and step by step (Trace_FrameImpl: the recorded Read requests and answers must be a behaviour of FrameImpl) on a sample of <= 60 calls per run; disagreement there is reported as model drift.",
  technique="TLA+ reader model (FrameImpl) exhaustively checked by TLC + TLC trace validation of recorded Read sequences and results",
  design="DESIGN.md section 5, C10"),
 "C11": dict(
  level="model_checking",
  text="FrameImpl (see C10) is checked by TLC for TruncationIsError, FaultIsError, the chain rule (only a clean EOF exactly on a file boundary after >= 1 file ends a chain silently) and PartialContent at every cut and fault offset under every chunking; the same model with the pre-fix chain rule is shown to violate FaultIsError (non-vacuity). Recorded calls of the real code on valid single and chained streams cut or faulted at every offset (short streams) or at header / record-boundary +-1 / buffer-boundary +-1 / CRC offsets plus a seeded sample, in six reader behaviours (EOF, fault, last bytes together with EOF, last bytes together with the fault, fault reported as io.ErrUnexpectedEOF, reader with a Len method), through all entry points, are validated by TLC: error required, returned files hold exactly the records complete before the cut.",
  note="Trusted: TLC. Fault enumeration is complete for streams up to 200 bytes (quick) / 400 bytes (thorough); longer streams at header, record-boundary, buffer-boundary and CRC offsets plus a seeded sample.",
  technique="TLA+ reader model with EOF/fault at every Read (TLC exhaustive) + fault enumeration on the real code with TLC trace validation",
  design="DESIGN.md section 5, C11"),
 "C15": dict(
  level="model_checking",
  text="Trace_Tables.tla states ProfileWellFormed; TLC evaluates it over constants exported from the compiled program at every run (verif hook + reflection): every known message has a constructor and a type; field numbers map to distinct struct indices, dense in 0..NumField-1; the Go type of each struct field matches the entry's base type, array flag and time/coordinate kind; the all-invalid constructor leaves every field at its type's invalid value; encoded sizes fit one byte; every file-container member is a known message; no table row for an unknown message; and (message, field number) -> (struct field name, base type, array) and the date_time / local_date_time kind agree with the rows of the newest bundled SDK workbook (21.40), read by the harness itself with the xlsx library. Every hosted (message, field) additionally goes through the real decoder and the real encoder once under recover.",
  note="Static evaluation by TLC over all 779 entries (exhaustive). SDK agreement only where the 21.40 workbook has the field (756 of 779); the workbook of the declared version 21.115 is not available offline.",
  technique="TLA+ well-formedness predicate evaluated by TLC over tables exported from the compiled program + SDK workbook cross-check",
  design="DESIGN.md section 5, C15"),
 "C17": dict(
  level="model_checking",
  text="Coord.tla states the clauses over integers: validity classes of semicircle values with their breakpoints (exactly +-2^30 left open), Semicircles, Degrees as the exact rational s*45/2^29 checked against the float64 bit pattern (mantissa/exponent arithmetic on 16-bit limbs), NaN iff invalid, round trip through degrees within one semicircle strictly inside the range, printed form as |P*2^29 - s*45*10^5| <= 2*2^29, time as epoch + u with the absolute Unix second, inverse and base-time clauses. The real types are swept natively (quick: stride 2^12 / 2^10 plus all class boundaries +-1000; thorough: all 2^32 values of both coordinate types and all 2^32 second counts) with the same integer clauses; TLC validates the run-length encoding of Invalid() over the swept points against the class tables and a stratified sample of full observations (thousands of values incl. every boundary +-3) event by event.",
  note="Trusted: TLC for the sample and the interval tables; the full-domain sweep uses native integer arithmetic (big.Int for the printed form). Go's float formatting is not modelled; the printed string is parsed back.",
  technique="TLA+ integer contract (Coord) + TLC validation of interval tables and sampled observations + native sweep of the 32-bit domains",
  design="DESIGN.md section 5, C17"),
 "C19": dict(
  level="translation_validation",
  text="FitGen.tla states the relation between the enabled rows of a workbook and the generated struct fields / lookup entries (one each per enabled row, in row order, struct index = rank among the enabled rows, nothing for disabled rows) and the generator as a row-by-row state machine; TLC checks the relation for all 64 selections of a toy message (and that a row-index variant breaks it). The real fitgen command, built from /repo, is run on the 5 bundled workbooks under seeded dependency-closed selections (main-field and sub-field rows blanked with the xlsx library), as a bare workbook with -sdk and inside a FitSDKRelease_<v>.zip, twice per selection (into an empty directory and over an existing stock output); exit status, byte-identity of the four files, the declared SDK version, the parsed struct fields and _fields entries (go/parser) and go build together with the hand-written files the generated code needs are recorded and validated by TLC against FitGen.",
  note="Compilation and byte-identity are decided by go build and byte comparison (facts in the trace). 'Support code' = pfield.go, accumu.go, time.go, latlng.go, types_man.go, internal/types: file_types.go does not build against any bundled workbook, stock selections included (DESIGN.md C19). Selections are sampled.",
  technique="TLA+ row/entry relation (FitGen) checked by TLC on a toy workbook + translation validation of real fitgen runs on rewritten workbooks",
  design="DESIGN.md section 5, C19"),
 "C20": dict(
  level="model_checking",
  text="Trace_Stringer.tla states the lookup rule (name of a constant with that value without the type prefix, else Type(n)); the constant table is extracted from the checked-in types.go with go/types (not from types_string.go). A generated probe program calls String() on every constant of all 176 generated types, their neighbours, all 256 values of 8-bit types, small values and seeded samples of wider types (35 000+ calls); TLC validates every observation. The repository's forked stringer (copied into a scratch module) is run on the checked-in types.go with the type list from the header of types_string.go; byte equality with the checked-in file is a fact validated in the same trace. The hand-written type of types_man.go (Bool) is probed on all 256 values under the same rule.",
  note="A table-lookup property: TLA+ adds an independent statement of the rule. Exhaustive over constants and 8-bit types; wider types sampled.",
  technique="TLA+ lookup rule + TLC validation of every observed String() call + regeneration with the repository's stringer",
  design="DESIGN.md section 5, C20"),
 "C02": dict(
  level="model_checking",
  text="The TLA+ reference decoder FitRef (value semantics FitValues: byte order, sign/zero extension, strings, arrays, times, coordinates, invalid values; three-valued verdicts) is run by TLC over the input of every recorded Decode call (trace validation, one state per protocol unit) and every produced message is compared field by field with what the real decoder returned. Drivers: all device files under testdata, a systematic stream per hosted message covering every field x every compatible definition type (narrower types too) x both byte orders x boundary values with unknown/developer neighbours, large definitions (up to 255 fields / 255 developer fields), and seeded profile-driven random streams.",
  note="Trusted: TLC; the profile tables are read from the compiled program through the verif export hook (C15 checks them). Only messages held by a file container are observable. Unpinned cases (DESIGN.md 2.4) are not compared. ValuesImpl.tla (scratch-buffer padding and parseFitField for all 50 profile/definition type pairs x 2 byte orders x boundary byte patterns vs FitValues!ScalarVal; the two repaired defects as switches are refuted) is checked exhaustively in every run.",
  technique="TLA+ reference decoder (FitRef/FitValues) + TLC trace validation of recorded Decode calls (corpus, systematic per-field streams, random streams)",
  design="DESIGN.md section 5, C02"),
 "C03": dict(
  level="model_checking",
  text="FitRef!Deliver states the routing contract over a schema that is derived by reflection from the container struct types (not from the add switches). TLC validates recorded Decode calls: all 256 file-type values (accepted iff one of the 17, NewFile agreeing), and for each of the 17 file types streams carrying every known message type 2-3 times plus unknown messages and later file_id records (other type, same type, invalid type, no type field) in seeded interleavings, definitions that carry a few or all fields of the message (timestamps not increasing, small repeating message_index values), a first file_id without type field; slot membership, order (a message found at another position of its slot is reported as a stream-order violation), counts, last-wins for single slots, the reported file type and the set of succeeding accessors are compared.",
  note="Trusted: TLC, reflection-derived schema. Interleavings are sampled (seeded), the (file type, message type) matrix is complete in every run.",
  technique="TLA+ routing contract (FitRef!Deliver, FitProfile!RouteTab) + TLC trace validation over the complete file-type x message-type matrix",
  design="DESIGN.md section 5, C03"),
 "C12": dict(
  level="model_checking",
  text="The Contract's timestamp rules (FitRef!DataAt/FieldStep: epoch + seconds, least t >= reference congruent to the 5-bit offset mod 32, re-basing by field 253, local time = reference instant in a zone of offset local-minus-reference, offset 0 without reference) are evaluated by TLC over recorded Decode calls of timestamp-centred streams: boundary references (around 0x10000000 and 2^32), all 32 offsets, rollovers, long compressed runs, compressed records of messages without timestamp field and of unknown messages, local timestamps with equal/zero/varying offsets, both byte orders; plus device files.",
  note="Left unconstrained as DESIGN.md C12 states (compressed record before any reference; references below 0x10000000 for local times; state after an unreferenced local time or an unknown message's timestamp). TimestampImpl.tla (the code's update with lastTimeOffset on 32-bit byte tuples vs the least-congruent rule, lockstep over boundary references x 32 offsets; a 4-bit mask is refuted) and TimestampInt.tla (the same over the integers: inductive invariant and the rule as action invariant, discharged by Apalache) are checked in every run; chained timestamp streams check that the reference does not survive into the next file.",
  technique="TLA+ timestamp contract in FitRef + TLC trace validation of timestamp-centred streams",
  design="DESIGN.md section 5, C12"),
 "C13": dict(
  level="model_checking",
  text="FitRef keeps one definition per local type (defs[l] replaced by a definition record, looked up by data records; compressed headers address 0..3). TLC validates recorded Decode calls of streams over all 16 local types with redefinitions switching message, field list, sizes and byte order between data records of other slots, long-lived slots across >4096 cumulative field definitions, and data records of never-defined local types (must be rejected). Each stream is paired with a control stream in which every data record directly follows its own definition; a disagreement counts against C13 only if the control decodes correctly. Independence streams redefine one local type in every shape (no fields, developer fields only, long lists) for messages the file does not hold and are compared with the same stream without that local type. MC_Records: TLC enumerates every record sequence up to depth 3/4 over a 13-token alphabet, checks independent token-level restatements (undefined local type is an error, latest definition wins incl. the timestamp state, order kept) on the reference decoder, and every explored sequence is replayed into the real decoder.",
  note="Trusted: TLC. Streams are seeded random; the 16 slots are all used in every run.",
  technique="TLA+ slot contract in FitRef + TLC trace validation with control streams",
  design="DESIGN.md section 5, C13"),
 "C16": dict(
  level="model_checking",
  text="FitRef counts unknown messages (per data record of a message number absent from the profile) and unknown fields (per record of a known message, per unlisted field number); TLC compares the sorted lists with what the real decoder reports, exactly on success and within the record in flight on failure. Every input (generated with many unknown items, cut or bit-flipped part-way, device files, compressed-timestamp streams) is decoded under all 8 option combinations; each call is validated against the same Contract and the 8 results are compared with each other (messages, error incl. its text, bytes consumed); chains of files go through DecodeChained under the same 8 sets (the options hold for every file of a chain). The logger formats its arguments as a real one does.",
  note="Trusted: TLC. Logger output itself is discarded (a Logger that does nothing).",
  technique="TLA+ counters in FitRef + TLC trace validation under all 8 option sets + cross-option comparison",
  design="DESIGN.md section 5, C16"),
 "C18": dict(
  level="model_checking",
  text="FitRef!ApplyEnhance/ExpandRecord/ExpandEvent state the component rules (bit slices, invalid source leaves destinations alone, accumulation of rollover-corrected deltas restarting with every file). TLC validates recorded calls of component-bearing streams in each container that holds such messages (activity, course, activity summary, segment), decoded twice per process and as chains. The four known deviations of the generated code are modelled as named operators (the exact value the current code produces) and reported as KNOWN-FINDING; any other difference is a violation. ComponentsImpl.tla transcribes expandComponents / accumu.go with one switch per recorded deviation: TLC proves Impl = Contract with the switches off on every token sequence up to depth 3/4 (16 tokens incl. file boundaries) and refutes each switch alone; every explored sequence is replayed through DecodeChained and compared value for value with the as-implemented model (Trace_Components). AccumulateInt.tla: Apalache discharges the inductive invariant of the accumulator arithmetic for any number of records and refutes it for the mask-zero deviation.",
  note="Trusted: TLC; component table transcribed from the property statement with the profile's field numbers. Known findings listed in /verif/known_findings.json.",
  technique="TLA+ component contract in FitRef + TLC trace validation with named deviations for the recorded findings",
  design="DESIGN.md section 5, C18"),
 "C14": dict(
  level="model_checking",
  text="TLC checks NibStep (transcription of dyncrc16.updateByte) = BitStep (bit-serial CRC-16/ARC definition) = TabStep on all 65536x256 pairs (thorough; 65536x16 quick), linearity, the residue lemma and the streaming machine's partition invariant on a small alphabet; the real package is then bound to the spec twice: all 16.7M (state, byte) transitions of the real code are compared with the byte table TLC derived from the definition, and operation logs of the real Hash16 (writes in random partitions incl. the running sum written as data in either byte order, io.Copy / io.CopyN / io.WriteString feeding, Reset, Sum, Sum16, Checksum, residue, hashes obtained right after the library's own failing checks) are validated event by event against CrcStream by TLC.",
  note="Trusted: TLC + Bitwise module; the hash's state is the 16-bit register Sum16 exposes (reached through 2-byte prefixes, checked to be a bijection). Quick tier checks the TLA-side step equivalence on 16 byte values per state; the real-code transition sweep is exhaustive in both tiers.",
  technique="TLA+ spec (Crc16, CrcStream) + TLC exhaustive lemmas + exhaustive replay of the spec's step table into the real code + TLC trace validation of recorded operation logs",
  design="DESIGN.md section 5, C14"),
}

NOT_YET = "check not built yet (work in progress in this session); see DESIGN.md section 5"

def main():
    props=[json.loads(l) for l in open('/verif/properties.jsonl')]
    checks=[]; na=[]
    for p in props:
        i=p['id']
        if i in BUILT:
            b=BUILT[i]
            checks.append({
              "property_id": i,
              "quick_cmd": f"./check {i} quick",
              "thorough_cmd": f"./check {i} thorough",
              "evidence_file": f"/verif/evidence/{i}.json",
              "replay_cmd_template": f"./check {i} replay {{path}}",
              "engine": "vcheck",
              "level_claimed": {"category": b["level"], "text": b["text"], "design_ref": b["design"]},
              "level_note": b["note"],
              "technique": b["technique"],
            })
        else:
            na.append({"property_id": i, "reason": NOT_YET})
    m={
     "version":1,
     "setup_cmd":"cd /verif && ./setup.sh",
     "hooks":{"guard":"verif","enable":"go build -tags verif (the harness module replaces github.com/tormoder/fit with /repo, so every check rebuilds from /repo's working tree)","baseline_off_cmd":"cd /repo && go test -vet=off -count=1 ./...","source_commits":HOOK_COMMITS,"add_only":True},
     "engines":[{"name":"vcheck","path":"/verif/check","serves_properties":sorted(BUILT),"kind_free_text":"TLA+ specifications in /verif/spec checked with TLC (exhaustive configurations + trace-validation instances); Go conformance harness in /verif/harness records traces from the real code and replays TLC-generated behaviours into it"}],
     "checks":checks,
     "notes":"Every check: ./check <id> <quick|thorough>; exit 0 held, 1 VIOLATION, 2 machinery failure (never a violation). Known findings: /verif/known_findings.json.",
     "not_applicable":na,
    }
    json.dump(m,open('/verif/MANIFEST.json','w'),indent=1)
    print("checks:",len(checks),"not_applicable:",len(na))
main()
