#!/usr/bin/env python3
"""Regenerates /verif/MANIFEST.json from the table below (single source of truth)."""
import json, subprocess

HOOK_COMMITS = ["5ccaaac", "7f20f04"]

# id -> dict(level, text, note, technique, design)
BUILT = {
 "C02": dict(
  level="model_checking",
  text="The TLA+ reference decoder FitRef (value semantics FitValues: byte order, sign/zero extension, strings, arrays, times, coordinates, invalid values; three-valued verdicts) is run by TLC over the input of every recorded Decode call (trace validation, one state per protocol unit) and every produced message is compared field by field with what the real decoder returned. Drivers: all device files under testdata, a systematic stream per hosted message covering every field x every compatible definition type (narrower types too) x both byte orders x boundary values with unknown/developer neighbours, large definitions (up to 255 fields / 255 developer fields), and seeded profile-driven random streams.",
  note="Trusted: TLC; the profile tables are read from the compiled program through the verif export hook (C15 checks them). Only messages held by a file container are observable. Unpinned cases (DESIGN.md 2.4) are not compared. No exhaustive Impl model of parseFitField is claimed here: binding is by trace validation.",
  technique="TLA+ reference decoder (FitRef/FitValues) + TLC trace validation of recorded Decode calls (corpus, systematic per-field streams, random streams)",
  design="DESIGN.md section 5, C02"),
 "C03": dict(
  level="model_checking",
  text="FitRef!Deliver states the routing contract over a schema that is derived by reflection from the container struct types (not from the add switches). TLC validates recorded Decode calls: all 256 file-type values (accepted iff one of the 17, NewFile agreeing), and for each of the 17 file types streams carrying every known message type 2-3 times plus unknown messages and later file_id records (other type, same type, invalid type, no type field) in seeded interleavings; slot membership, order, counts, last-wins for single slots, the reported file type and the set of succeeding accessors are compared.",
  note="Trusted: TLC, reflection-derived schema. Interleavings are sampled (seeded), the (file type, message type) matrix is complete in every run.",
  technique="TLA+ routing contract (FitRef!Deliver, FitProfile!RouteTab) + TLC trace validation over the complete file-type x message-type matrix",
  design="DESIGN.md section 5, C03"),
 "C12": dict(
  level="model_checking",
  text="The Contract's timestamp rules (FitRef!DataAt/FieldStep: epoch + seconds, least t >= reference congruent to the 5-bit offset mod 32, re-basing by field 253, local time = reference instant in a zone of offset local-minus-reference, offset 0 without reference) are evaluated by TLC over recorded Decode calls of timestamp-centred streams: boundary references (around 0x10000000 and 2^32), all 32 offsets, rollovers, long compressed runs, compressed records of messages without timestamp field and of unknown messages, local timestamps with equal/zero/varying offsets, both byte orders; plus device files.",
  note="Left unconstrained as DESIGN.md C12 states (compressed record before any reference; references below 0x10000000 for local times; state after an unreferenced local time or an unknown message's timestamp). The Impl's masked int32 arithmetic is not separately model-checked yet.",
  technique="TLA+ timestamp contract in FitRef + TLC trace validation of timestamp-centred streams",
  design="DESIGN.md section 5, C12"),
 "C13": dict(
  level="model_checking",
  text="FitRef keeps one definition per local type (defs[l] replaced by a definition record, looked up by data records; compressed headers address 0..3). TLC validates recorded Decode calls of streams over all 16 local types with redefinitions switching message, field list, sizes and byte order between data records of other slots, long-lived slots across >4096 cumulative field definitions, and data records of never-defined local types (must be rejected). Each stream is paired with a control stream in which every data record directly follows its own definition; a disagreement counts against C13 only if the control decodes correctly.",
  note="Trusted: TLC. Streams are seeded random; the 16 slots are all used in every run.",
  technique="TLA+ slot contract in FitRef + TLC trace validation with control streams",
  design="DESIGN.md section 5, C13"),
 "C16": dict(
  level="model_checking",
  text="FitRef counts unknown messages (per data record of a message number absent from the profile) and unknown fields (per record of a known message, per unlisted field number); TLC compares the sorted lists with what the real decoder reports, exactly on success and within the record in flight on failure. Every input (generated with many unknown items, cut or bit-flipped part-way, device files, compressed-timestamp streams) is decoded under all 8 option combinations; each call is validated against the same Contract and the 8 results are compared with each other (messages, error, bytes consumed).",
  note="Trusted: TLC. Logger output itself is discarded (a Logger that does nothing).",
  technique="TLA+ counters in FitRef + TLC trace validation under all 8 option sets + cross-option comparison",
  design="DESIGN.md section 5, C16"),
 "C18": dict(
  level="model_checking",
  text="FitRef!ApplyEnhance/ExpandRecord/ExpandEvent state the component rules (bit slices, invalid source leaves destinations alone, accumulation of rollover-corrected deltas restarting with every file). TLC validates recorded calls of component-bearing streams in each container that holds such messages (activity, course, activity summary, segment), decoded twice per process and as chains. The four known deviations of the generated code are modelled as named operators (the exact value the current code produces) and reported as KNOWN-FINDING; any other difference is a violation.",
  note="Trusted: TLC; component table transcribed from the property statement with the profile's field numbers. Known findings listed in /verif/known_findings.json.",
  technique="TLA+ component contract in FitRef + TLC trace validation with named deviations for the recorded findings",
  design="DESIGN.md section 5, C18"),
 "C14": dict(
  level="model_checking",
  text="TLC checks NibStep (transcription of dyncrc16.updateByte) = BitStep (bit-serial CRC-16/ARC definition) = TabStep on all 65536x256 pairs (thorough; 65536x16 quick), linearity, the residue lemma and the streaming machine's partition invariant on a small alphabet; the real package is then bound to the spec twice: all 16.7M (state, byte) transitions of the real code are compared with the byte table TLC derived from the definition, and operation logs of the real Hash16 (writes in random partitions, Reset, Sum, Sum16, Checksum, residue) are validated event by event against CrcStream by TLC.",
  note="Trusted: TLC + Bitwise module; the hash's state is the 16-bit register Sum16 exposes (reached through 2-byte prefixes, checked to be a bijection). Quick tier checks the TLA-side step equivalence on 16 byte values per state; the real-code transition sweep is exhaustive in both tiers.",
  technique="TLA+ spec (Crc16, CrcStream) + TLC exhaustive lemmas + exhaustive replay of the spec's step table into the real code + TLC trace validation of recorded operation logs",
  design="DESIGN.md section 5, C14"),
}

NOT_YET = "check not built yet (work in progress in this session); see DESIGN.md section 5"

def main():
    props=[json.loads(l) for l in open('/verif/properties.jsonl')]
    checks=[]; na=[]
    for p in props:
        i=p['id']
        if i in BUILT:
            b=BUILT[i]
            checks.append({
              "property_id": i,
              "quick_cmd": f"./check {i} quick",
              "thorough_cmd": f"./check {i} thorough",
              "evidence_file": f"/verif/evidence/{i}.json",
              "replay_cmd_template": f"./check {i} replay {{path}}",
              "engine": "vcheck",
              "level_claimed": {"category": b["level"], "text": b["text"], "design_ref": b["design"]},
              "level_note": b["note"],
              "technique": b["technique"],
            })
        else:
            na.append({"property_id": i, "reason": NOT_YET})
    m={
     "version":1,
     "setup_cmd":"cd /verif && ./setup.sh",
     "hooks":{"guard":"verif","enable":"go build -tags verif (the harness module replaces github.com/tormoder/fit with /repo, so every check rebuilds from /repo's working tree)","baseline_off_cmd":"cd /repo && go test -vet=off -count=1 ./...","source_commits":HOOK_COMMITS,"add_only":True},
     "engines":[{"name":"vcheck","path":"/verif/check","serves_properties":sorted(BUILT),"kind_free_text":"TLA+ specifications in /verif/spec checked with TLC (exhaustive configurations + trace-validation instances); Go conformance harness in /verif/harness records traces from the real code and replays TLC-generated behaviours into it"}],
     "checks":checks,
     "notes":"Every check: ./check <id> <quick|thorough>; exit 0 held, 1 VIOLATION, 2 machinery failure (never a violation). Known findings: /verif/known_findings.json.",
     "not_applicable":na,
    }
    json.dump(m,open('/verif/MANIFEST.json','w'),indent=1)
    print("checks:",len(checks),"not_applicable:",len(na))
main()
