#!/usr/bin/env python3
"""Regenerates /verif/MANIFEST.json from the table below (single source of truth)."""
import json, subprocess

HOOK_COMMITS = ["5ccaaac"]

# id -> dict(level, text, note, technique, design)
BUILT = {
 "C14": dict(
  level="model_checking",
  text="TLC checks NibStep (transcription of dyncrc16.updateByte) = BitStep (bit-serial CRC-16/ARC definition) = TabStep on all 65536x256 pairs (thorough; 65536x16 quick), linearity, the residue lemma and the streaming machine's partition invariant on a small alphabet; the real package is then bound to the spec twice: all 16.7M (state, byte) transitions of the real code are compared with the byte table TLC derived from the definition, and operation logs of the real Hash16 (writes in random partitions, Reset, Sum, Sum16, Checksum, residue) are validated event by event against CrcStream by TLC.",
  note="Trusted: TLC + Bitwise module; the hash's state is the 16-bit register Sum16 exposes (reached through 2-byte prefixes, checked to be a bijection). Quick tier checks the TLA-side step equivalence on 16 byte values per state; the real-code transition sweep is exhaustive in both tiers.",
  technique="TLA+ spec (Crc16, CrcStream) + TLC exhaustive lemmas + exhaustive replay of the spec's step table into the real code + TLC trace validation of recorded operation logs",
  design="DESIGN.md section 5, C14"),
}

NOT_YET = "check not built yet (work in progress in this session); see DESIGN.md section 5"

def main():
    props=[json.loads(l) for l in open('/verif/properties.jsonl')]
    checks=[]; na=[]
    for p in props:
        i=p['id']
        if i in BUILT:
            b=BUILT[i]
            checks.append({
              "property_id": i,
              "quick_cmd": f"./check {i} quick",
              "thorough_cmd": f"./check {i} thorough",
              "evidence_file": f"/verif/evidence/{i}.json",
              "replay_cmd_template": f"./check {i} replay {{path}}",
              "engine": "vcheck",
              "level_claimed": {"category": b["level"], "text": b["text"], "design_ref": b["design"]},
              "level_note": b["note"],
              "technique": b["technique"],
            })
        else:
            na.append({"property_id": i, "reason": NOT_YET})
    m={
     "version":1,
     "setup_cmd":"cd /verif && ./setup.sh",
     "hooks":{"guard":"verif","enable":"go build -tags verif (the harness module replaces github.com/tormoder/fit with /repo, so every check rebuilds from /repo's working tree)","baseline_off_cmd":"cd /repo && go test -vet=off -count=1 ./...","source_commits":HOOK_COMMITS,"add_only":True},
     "engines":[{"name":"vcheck","path":"/verif/check","serves_properties":sorted(BUILT),"kind_free_text":"TLA+ specifications in /verif/spec checked with TLC (exhaustive configurations + trace-validation instances); Go conformance harness in /verif/harness records traces from the real code and replays TLC-generated behaviours into it"}],
     "checks":checks,
     "notes":"Every check: ./check <id> <quick|thorough>; exit 0 held, 1 VIOLATION, 2 machinery failure (never a violation). Known findings: /verif/known_findings.json.",
     "not_applicable":na,
    }
    json.dump(m,open('/verif/MANIFEST.json','w'),indent=1)
    print("checks:",len(checks),"not_applicable:",len(na))
main()
